#!/bin/sh
# Offline setup: nothing is installed; parse every specification and import the harness.
set -e
cd "$(dirname "$0")"
cd spec
for f in *.tla; do
  java -cp /opt/veriftools/tla/tla2tools.jar:/opt/veriftools/tla/CommunityModules-deps.jar tla2sany.SANY "$f" > /tmp/sany.$$ 2>&1 || { cat /tmp/sany.$$; rm -f /tmp/sany.$$; exit 1; }
  if grep -q -E "Semantic errors|Parse Error|Fatal errors|Could not parse|Cannot find source" /tmp/sany.$$; then cat /tmp/sany.$$; rm -f /tmp/sany.$$; exit 1; fi
done
rm -f /tmp/sany.$$
cd ..
PYTHONDONTWRITEBYTECODE=1 PYTHONPATH=. /venv/bin/python -c "import harness.main, harness.zenv, harness.interpose, harness.tlaval, harness.par; import zorg; print('harness ok')"
