---------------------------- MODULE QueryGrammar ----------------------------
(***************************************************************************)
(* What SWOG query text denotes (C04): the structure a query string spells.*)
(* Each family below is a set of cases [txt |-> query text, q |-> denoted   *)
(* structure]; the text is assembled from the same pieces as the structure, *)
(* so the families read both ways (text -> structure, structure -> text).   *)
(*                                                                         *)
(* q == [select, order : Seq, group : Seq, where : Seq(and-filter)]         *)
(* and-filter (raw shape) == [kinds, prios, tags, cr, mr : Seq(<<lo,hi>>)   *)
(*    (YYYYMMDD, hi = 0: single day), props : Seq([key, op, value, vt, neg])]*)
(* Tree shapes (juxtaposition, |, parentheses) are covered by MC_Filter.     *)
(***************************************************************************)
EXTENDS Dates, FiniteSets, TLC

EmptyF == [kinds |-> <<>>, prios |-> <<>>, tags |-> <<>>, cr |-> <<>>, mr |-> <<>>, props |-> <<>>]
DefaultOrder == << "NOTE_TYPE", "PRIORITY", "MODIFY_DATE", "CREATE_DATE" >>
Q(sel, ord, grp, where) == [select |-> sel, order |-> ord, group |-> grp, where |-> where]
NoteSel == [t |-> "NOTE"]

Dig(n) == CASE n = 0 -> "0" [] n = 1 -> "1" [] n = 2 -> "2" [] n = 3 -> "3" [] n = 4 -> "4" [] n = 5 -> "5"
            [] n = 6 -> "6" [] n = 7 -> "7" [] n = 8 -> "8" [] n = 9 -> "9"
RECURSIVE Num(_)
Num(n) == IF n < 10 THEN Dig(n) ELSE Num(n \div 10) \o Dig(n % 10)
D2(n) == IF n < 10 THEN "0" \o Dig(n) ELSE Num(n)

\* ---- priorities: Pn and Pn-m (n <= m, m in 1..9): 64 spellings of 55 sets
PName(n) == "P" \o Dig(n)
PSeq(n, m) == [i \in 1..(m - n + 1) |-> PName(n + i - 1)]
PrioCases ==
  { [txt |-> "W " \o PName(n), q |-> Q(NoteSel, DefaultOrder, <<>>, << [EmptyF EXCEPT !.prios = PSeq(n, n)] >>)] : n \in 0..9 }
  \cup { [txt |-> "W " \o PName(n) \o "-" \o Dig(m), q |-> Q(NoteSel, DefaultOrder, <<>>, << [EmptyF EXCEPT !.prios = PSeq(n, m)] >>)]
         : <<n, m>> \in { p \in (0..9) \X (1..9) : p[1] <= p[2] } }

\* ---- kind strings (o and x may not touch: `ox` is one identifier token)
KindChars == {"-", "o", "x", "~", "<", ">"}
Letters == {"o", "x"}
OkPair(a, b) == ~(a \in Letters /\ b \in Letters)
KindStrings == { <<a>> : a \in KindChars } \cup { <<a, b>> \in KindChars \X KindChars : OkPair(a, b) }
               \cup { <<a, b, c>> \in KindChars \X KindChars \X KindChars : OkPair(a, b) /\ OkPair(b, c) }
RECURSIVE Cat(_)
Cat(s) == IF s = <<>> THEN "" ELSE s[1] \o Cat(Tail(s))
SetSeq(S) == LET RECURSIVE F(_) F(T) == IF T = {} THEN <<>> ELSE LET x == CHOOSE y \in T : TRUE IN <<x>> \o F(T \ {x}) IN F(S)
KindCases == { [txt |-> "W " \o Cat(s), q |-> Q(NoteSel, DefaultOrder, <<>>, << [EmptyF EXCEPT !.kinds = SetSeq({ s[i] : i \in DOMAIN s })] >>)]
               : s \in KindStrings }

\* ---- select / order / group clauses, both clause orders, omitted clauses
Fields == { <<"note", [t |-> "NOTE"]>>, <<"file", [t |-> "FILE"]>>, <<"#", [t |-> "AREA"]>>, <<"@", [t |-> "CONTEXT"]>>,
            <<"%", [t |-> "PERSON"]>>, <<"+", [t |-> "PROJECT"]>>, <<"prop", [t |-> "PROPERTY"]>>, <<"links", [t |-> "LINKS"]>>,
            <<"prop:due", [t |-> "PROPVALS", key |-> "due"]>>, <<"prop:k_1", [t |-> "PROPVALS", key |-> "k_1"]>> }
Selects == Fields \cup { << "count(" \o f[1] \o ")", [t |-> "COUNT", of |-> f[2]] >> : f \in Fields }
OrderAtoms == { <<"alpha", "ALPHA">>, <<"create", "CREATE_DATE">>, <<"modify", "MODIFY_DATE">>, <<"priority", "PRIORITY">>,
                <<"type", "NOTE_TYPE">>, <<"none", "NONE">> }
GroupAtoms == { <<"file", "FILE">>, <<"section", "SECTION">>, <<"type", "NOTE_TYPE">>, <<"priority", "PRIORITY">>, <<"none", "">>,
                <<"@", "CONTEXT">>, <<"#", "AREA">>, <<"%", "PERSON">>, <<"+", "PROJECT">> }
Lists(A, n) == UNION { [1..k -> A] : k \in 1..n }
RECURSIVE JoinT(_), Names(_)
JoinT(s) == IF Len(s) = 1 THEN s[1][1] ELSE s[1][1] \o " " \o JoinT(Tail(s))
Names(s) == IF s = <<>> THEN <<>> ELSE (IF s[1][2] = "" THEN <<>> ELSE << s[1][2] >>) \o Names(Tail(s))     \* `none` groups by nothing
WhereO == << [EmptyF EXCEPT !.kinds = <<"o">>] >>
SelectCases ==
  { [txt |-> "S " \o s[1] \o " W o", q |-> Q(s[2], DefaultOrder, <<>>, WhereO)] : s \in Selects }
  \cup { [txt |-> "S " \o s[1], q |-> Q(s[2], DefaultOrder, <<>>, <<>>)] : s \in Selects }                       \* no WHERE at all
  \cup { [txt |-> "S " \o s[1] \o " W o O alpha G file", q |-> Q(s[2], <<"ALPHA">>, <<"FILE">>, WhereO)] : s \in Selects }
  \cup { [txt |-> "S " \o s[1] \o " W o G file O alpha", q |-> Q(s[2], <<"ALPHA">>, <<"FILE">>, WhereO)] : s \in Selects }
  \cup { [txt |-> "S " \o s[1] \o " G file O alpha", q |-> Q(s[2], <<"ALPHA">>, <<"FILE">>, <<>>)] : s \in Selects }
OrderCases(n) ==
  { [txt |-> "W o O " \o JoinT(l), q |-> Q(NoteSel, Names(l), <<>>, WhereO)] : l \in Lists(OrderAtoms, n) }
  \cup { [txt |-> "W o G type O " \o JoinT(l), q |-> Q(NoteSel, Names(l), <<"NOTE_TYPE">>, WhereO)] : l \in Lists(OrderAtoms, 1) }
GroupCases(n) ==
  { [txt |-> "W o G " \o JoinT(l), q |-> Q(NoteSel, DefaultOrder, Names(l), WhereO)] : l \in Lists(GroupAtoms, n) }
  \cup { [txt |-> "W o O none G " \o JoinT(l), q |-> Q(NoteSel, <<"NONE">>, Names(l), WhereO)] : l \in Lists(GroupAtoms, 1) }
\* four grouping dimensions: every ordered choice of 4 distinct real dimensions from a rotating window
Dim4Cases ==
  { [txt |-> "W o G " \o JoinT(l), q |-> Q(NoteSel, DefaultOrder, Names(l), WhereO)]
    : l \in { m \in [1..4 -> GroupAtoms] : Cardinality({ m[i] : i \in 1..4 }) = 4 /\ m[1][1] \in {"file", "+"} /\ m[3][1] \in {"type", "@", "none"} } }

\* ---- date atoms: ^ (create) / $ (modify), absolute YYMMDD or relative N{d,m,y}, optional minus, optional :tail
Units == {"d", "m", "y"}
RelSpec(n, u, past) == [txt |-> (IF past THEN "-" ELSE "") \o Num(n) \o u, n |-> n, u |-> u, past |-> past, abs |-> <<0, 0, 0>>]
AbsSpec(dt) == [txt |-> D2(dt[1] % 100) \o D2(dt[2]) \o D2(dt[3]), n |-> 0, u |-> "abs", past |-> FALSE, abs |-> dt]
Denote(today, s) == IF s.u = "abs" THEN s.abs ELSE Rel(today, s.u, s.n, s.past)
DateCases(today, Ns, tails) ==
  LET heads == { RelSpec(n, u, p) : n \in Ns, u \in Units, p \in BOOLEAN } \cup { AbsSpec(<<2024, 2, 29>>), AbsSpec(<<2023, 12, 31>>) }
      mk(sym, h, t) ==
         LET lo == Ymd(Denote(today, h))
             rng == IF t.u = "none" THEN << lo, 0 >> ELSE << lo, Ymd(Denote(today, t)) >>
             f == IF sym = "^" THEN [EmptyF EXCEPT !.cr = << rng >>] ELSE [EmptyF EXCEPT !.mr = << rng >>]
         IN [txt |-> "W " \o sym \o h.txt \o (IF t.u = "none" THEN "" ELSE ":" \o t.txt), q |-> Q(NoteSel, DefaultOrder, <<>>, << f >>)]
  IN { mk(sym, h, t) : sym \in {"^", "$"}, h \in heads, t \in tails }
NoTail == [txt |-> "", n |-> 0, u |-> "none", past |-> FALSE, abs |-> <<0, 0, 0>>]

\* ---- property atoms: key, operator, value, negation, value type inferred from the value
Ops == { <<"", "EQ">>, <<"<", "LT">>, <<"<=", "LE">>, <<">", "GT">>, <<">=", "GE">> }
Values == { <<"5", "INTEGER">>, <<"12", "INTEGER">>, <<"0", "INTEGER">>, <<"12345", "INTEGER">>, <<"240305", "DATE">>,
            <<"2024-03-05", "DATE">>, <<"3d", "DATE">>, <<"-1m", "DATE">>, <<"10y", "DATE">>, <<"abc", "STRING">>, <<"v1", "STRING">>,
            <<"X9_z", "STRING">>, <<"3dd", "STRING">> }
PropCases ==
  { [txt |-> "W " \o (IF neg THEN "!" ELSE "") \o k \o ":" \o o[1] \o v[1],
     q |-> Q(NoteSel, DefaultOrder, <<>>, << [EmptyF EXCEPT !.props = << [key |-> k, op |-> o[2], value |-> v[1], vt |-> v[2], neg |-> neg] >>] >>)]
    : k \in {"due", "k_1", "ID"}, o \in Ops, v \in Values, neg \in BOOLEAN }
  \cup { [txt |-> "W " \o (IF neg THEN "!" ELSE "") \o k \o ":*",
          q |-> Q(NoteSel, DefaultOrder, <<>>, << [EmptyF EXCEPT !.props = << [key |-> k, op |-> "EXISTS", value |-> "", vt |-> "ANY", neg |-> neg] >>] >>)]
         : k \in {"due", "k_1"}, neg \in BOOLEAN }
\* ---- tags: the four symbols, identifiers over the documented alphabet, negation
TagSyms == { <<"#", "areas">>, <<"@", "contexts">>, <<"%", "people">>, <<"+", "projects">> }
TagCases == { [txt |-> "W " \o (IF neg THEN "!" ELSE "") \o s[1] \o n,
               q |-> Q(NoteSel, DefaultOrder, <<>>, << [EmptyF EXCEPT !.tags = << [ty |-> s[2], name |-> n, neg |-> neg] >>] >>)]
              : s \in TagSyms, n \in {"a", "Zorg", "deep_work", "x1y2", "A_9", "q"}, neg \in BOOLEAN }
=============================================================================
