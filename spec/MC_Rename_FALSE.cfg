SPECIFICATION Spec
CONSTANT Deep = FALSE
INVARIANT EmitCase
CHECK_DEADLOCK FALSE
