SPECIFICATION TraceSpec
CONSTANTS
  PageSeq <- TPageSeq
  CliPaths <- TCli
  KaPaths <- TKaPaths
  ZoqFiles <- TZoq
  MaxSess = 1000
  MaxProc = 1000
INVARIANT TypeOK
INVARIANT QuiescentEditor
INVARIANT EditOnlyIfAsked
INVARIANT AtMostOneEdit
INVARIANT KaConsumed
INVARIANT WriteBacksPending
INVARIANT AbortOnlyIfBroken
INVARIANT CleanExit
CHECK_DEADLOCK FALSE
