SPECIFICATION Spec
CONSTANT Depth = 2
INVARIANT EmitCase
INVARIANT Complement
CHECK_DEADLOCK FALSE
