SPECIFICATION Spec
INVARIANT EmitCase
INVARIANT NoClobber
INVARIANT Idempotent
CHECK_DEADLOCK FALSE
