------------------------------ MODULE MC_Action ------------------------------
(* C17 case generator: lines of up to five words over the word classes, with    *)
(* punctuation wrapping, in .zo and .zoq pages, with every option index.         *)
EXTENDS ActionOpen, Json
CONSTANT Deep
VARIABLES pre, c
W(cl, t) == [c |-> cl, txt |-> t, core |-> t]
Wrap(w, a, b) == [w EXCEPT !.txt = a \o w.txt \o b]
PL(p, a) == [c |-> "plink", page |-> p, anchor |-> a, txt |-> "[[" \o p \o (IF a = "" THEN "" ELSE "#" \o a) \o "]]",
             core |-> "[[" \o p \o (IF a = "" THEN "" ELSE "#" \o a) \o "]]"]
L(cl, mark, i) == [c |-> cl, id |-> i, txt |-> mark \o i \o "]", core |-> mark \o i \o "]"]
Owner == ( <<"ID", "gid1">> :> "b.zo" ) @@ ( <<"RID", "rid1">> :> "b.zo" ) @@ ( <<"ZID", "240301#01">> :> "a.zo" )
         @@ ( <<"ZID", "240310#00">> :> "b.zo" ) @@ ( <<"ZID", "240201#00">> :> "sub/bb.zo" ) @@ ( <<"ZID", "240117#00">> :> "cxlog.zo" )
Prefixes == { << >>, << W("kind", "-") >>, << W("kind", "o"), W("prio", "P1") >>, << W("kind", "x"), W("sdate", "240305") >>,
              << W("kind", "-"), W("zid", "240117#00") >>, << W("kind", "o"), W("prio", "P2"), W("sdate", "240305"), W("zid", "240117#00") >> }
Body == { W("plain", "text"), W("plain", "more"), W("zid", "240301#01"), W("zid", "240310#00"), PL("b", ""), PL("sub/bb", "anc"), PL("a", "top"),
          L("llink", "[^", "loc1"), L("glink", "[#", "gid1"), L("rlink", "[@", "rid1"), L("glink", "[#", "nope"),
          Wrap(PL("c_log", ""), "(", ")"), Wrap(W("zid", "240201#00"), "", "."), Wrap(L("llink", "[^", "loc2"), "", ","),
          Wrap(W("zid", "240301#01"), "[", "]") }
Bodies == UNION { [1..k -> Body] : k \in 1..(IF Deep THEN 3 ELSE 2) }
Opts == {NoOpt, 1, 2, 3, Last}
Init == pre \in Prefixes /\ c = [line |-> << >>]
Next == /\ c.line = << >> /\ UNCHANGED pre
        /\ \E b \in Bodies, z \in BOOLEAN, o \in Opts :
             \* a line that STARTS with a ZID (no kind prefix) is outside the property: whether that ZID is "primary" is not stated
             /\ ~(pre = << >> /\ b[1].c = "zid")
             /\ c' = [line |-> pre \o b, zoq |-> z, opt |-> o, exp |-> Respond(pre \o b, z, o, Owner),
                   law |-> OptionLaw(pre \o b, z, Owner)]
Spec == Init /\ [][Next]_<<pre, c>>
RECURSIVE Txt(_)
Txt(ws) == IF ws = << >> THEN "" ELSE IF Len(ws) = 1 THEN ws[1].txt ELSE ws[1].txt \o " " \o Txt(Tail(ws))
EmitCase == c.line = << >> \/ PrintT(ToJson([text |-> Txt(c.line), zoq |-> c.zoq, opt |-> c.opt, exp |-> c.exp]))
LawHolds == c.line = << >> \/ c.law
=============================================================================
