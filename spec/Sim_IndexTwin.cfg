SPECIFICATION BSpecIndexed
CONSTANTS
  Pages = {1, 2}
  MaxNotes = 3
  MaxDay = 2
  MaxSteps = 10
  MaxUid = 8
  MaxIdle = 4
  Kinds <- KindsAll
  Feature <- FeatEdit
INVARIANT Agreement
INVARIANT AllZid
INVARIANT UniqueZid
INVARIANT ZidsBelowCounter
INVARIANT RebuildEquivalence
INVARIANT NoGhostPages
INVARIANT GhostAgrees
INVARIANT BrokenOnlyIfWhitelisted
PROPERTY Idempotent
PROPERTY OnlyZidInsertions
PROPERTY StampIff
PROPERTY CountersMonotone
CHECK_DEADLOCK FALSE
