----------------------------- MODULE MC_PageSkel -----------------------------
(* C02 design check: every legal section skeleton up to a bound, every scope  *)
(* (title, head line, section header, in-block comment, item) decorated with  *)
(* its OWN unique tag of two types, link, property key, a shared key K whose   *)
(* value names the scope, and optionally a date - so any leak, any missing     *)
(* inheritance and any wrong override shows in the note record.                *)
EXTENDS PageWalk
CONSTANTS MaxLines, MaxHdrs, DateChoices, OwnChoices, WithCmt,
          Det    \* TRUE: one decoration pattern per position (the replay configuration)
Today == "2024-06-01"
D2(i) == IF i < 10 THEN "0" \o ToString(i) ELSE ToString(i)
Deco(i) == << Tag("projects", "p" \o ToString(i)), Tag("areas", "a" \o ToString(i)), Link("pg" \o ToString(i)),
              Prop("own" \o ToString(i), "v" \o ToString(i)), Prop("K", "v" \o ToString(i)) >>
DateW(i) == << LDate("2024", "01", D2(i)) >>
SecLine(l, i, d)  == [k |-> "sec", lvl |-> l, w |-> <<Plain("S" \o ToString(i))>> \o Deco(i) \o (IF d THEN DateW(i) ELSE <<>>)]
CmtLine(i)        == [k |-> "cmt", w |-> <<Plain("c" \o ToString(i))>> \o Deco(i) \o DateW(i)]
ItemLine(i, own, d) == [k |-> "item", kind |-> "-", prio |-> None, gap |-> 1, cont |-> <<>>,
                        w |-> (IF d THEN DateW(i) ELSE <<>>) \o <<Plain("n" \o ToString(i))>> \o (IF own THEN Deco(i) ELSE <<>>)]
Title(d) == <<Plain("T")>> \o Deco(90) \o (IF d THEN << LDate("2023", "12", "31") >> ELSE <<>>)
HeadLn   == <<Plain("H")>> \o Deco(91) \o << LDate("2023", "11", "30") >>     \* only its properties may count

NHdrs == Cardinality({ i \in DOMAIN page.body : IsSec(page.body[i]) })
Pos   == Len(page.body) + 1

SkInit == \E d \in DateChoices : InitWith(Title(d), << HeadLn >>)
DC(pos) == IF Det THEN {pos % 2 = 1} ELSE DateChoices
OC(pos) == IF Det THEN {pos % 3 # 0} ELSE OwnChoices
AddSec  == \E l \in 1..4, d \in DC(Pos) :
             Pos <= MaxLines /\ NHdrs < MaxHdrs /\ CanOpen(l) /\ Consume(SecLine(l, Pos, d), Today)
AddItem == \E own \in OC(Pos), d \in DC(Pos + 1) : Pos <= MaxLines /\ Consume(ItemLine(Pos, own, d), Today)
AddCmt  == WithCmt /\ Pos <= MaxLines /\ Pos > 1 /\ page.body[Pos-1].k # "cmt" /\ Consume(CmtLine(Pos), Today)
AddBlank == Pos <= MaxLines /\ Pos > 1 /\ page.body[Pos-1].k \in {"item", "cmt"} /\ Consume([k |-> "blank"], Today)
SkNext == AddSec \/ AddItem \/ AddCmt \/ AddBlank
SkSpec == SkInit /\ [][SkNext]_wvars

\* deep skeletons: up to MaxHdrs headers of any legal level sequence, each followed by exactly one undecorated item, so that
\* what a note carries is exactly what its title, its enclosing headers - and nothing a closed sibling or cousin left behind - give it
DeepSec  == \E l \in 1..4 : NHdrs < MaxHdrs /\ (IF Pos = 1 THEN TRUE ELSE page.body[Pos-1].k = "item") /\ CanOpen(l)
                             /\ Consume(SecLine(l, Pos, Pos % 4 = 1), Today)
DeepItem == Pos > 1 /\ page.body[Pos-1].k = "sec" /\ Consume(ItemLine(Pos, FALSE, FALSE), Today)
DeepSpec == SkInit /\ [][DeepSec \/ DeepItem]_wvars

Refines == RefinesSem(Today)
\* the listener's idea of which header may open agrees with the tree's
LegalAgrees == WellFormedPage(page)
\* stated directly on the decorations: a note only carries marks of its own line, the title, or an enclosing header
NoLeak == \A n \in DOMAIN out :
             LET i == CHOOSE j \in DOMAIN page.body : IsItem(page.body[j]) /\ LineNo(page, j) = out[n].line
             IN \A t \in out[n].tags : \E j \in Encl(page.body, i) \cup {i, 90} : t[2] \in {"p" \o ToString(j), "a" \o ToString(j)}
=============================================================================
