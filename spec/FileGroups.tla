----------------------------- MODULE FileGroups -----------------------------
(***************************************************************************)
(* File-group expansion (C18): an argument list mixes ordinary paths and   *)
(* @group names; a group is a sequence of members: ordinary paths, date    *)
(* patterns over today and the six days before it, and @group references.  *)
(* Expansion flattens depth-first, in place and in order.                  *)
(* A member / argument is  [k |-> "path", parts : Seq(part)]  or           *)
(* [k |-> "ref", g]; a part is [k |-> "lit", s] | [k |-> "ymd", i] |        *)
(* [k |-> "year", i] (i = days back, 0..6).                                 *)
(***************************************************************************)
EXTENDS Dates, TLC
Dg(n) == CASE n = 0 -> "0" [] n = 1 -> "1" [] n = 2 -> "2" [] n = 3 -> "3" [] n = 4 -> "4" [] n = 5 -> "5"
           [] n = 6 -> "6" [] n = 7 -> "7" [] n = 8 -> "8" [] n = 9 -> "9"
RECURSIVE Nm(_)
Nm(n) == IF n < 10 THEN Dg(n) ELSE Nm(n \div 10) \o Dg(n % 10)
P2(n) == IF n < 10 THEN "0" \o Dg(n) ELSE Nm(n)
Back(today, i) == AddDays(today, 0 - i)
PartTxt(p, today) == CASE p.k = "lit"  -> p.s
                       [] p.k = "ymd"  -> Nm(Back(today, p.i)[1]) \o P2(Back(today, p.i)[2]) \o P2(Back(today, p.i)[3])
                       [] p.k = "year" -> Nm(Back(today, p.i)[1])
\* how the pattern is spelled in the configuration (str.format fields)
PartSrc(p) == CASE p.k = "lit" -> p.s [] p.k = "ymd" -> "{yyyymmdd[" \o Dg(p.i) \o "]}" [] p.k = "year" -> "{days[" \o Dg(p.i) \o "].year}"
RECURSIVE Cat(_, _), Src(_)
Cat(ps, today) == IF ps = << >> THEN "" ELSE PartTxt(ps[1], today) \o Cat(Tail(ps), today)
Src(ps) == IF ps = << >> THEN "" ELSE PartSrc(ps[1]) \o Src(Tail(ps))

RECURSIVE Expand(_, _, _, _)
\* fuel bounds the recursion depth (acyclic maps need at most the number of groups)
Expand(args, G, today, fuel) ==
  IF args = << >> THEN << >>
  ELSE LET a == args[1] IN
       (IF a.k = "ref" THEN Expand(G[a.g], G, today, fuel - 1)
        ELSE << IF a.isArg THEN Src(a.parts) ELSE Cat(a.parts, today) >>)       \* ordinary arguments are never formatted
       \o Expand(Tail(args), G, today, fuel)
=============================================================================
