SPECIFICATION TraceSpec
CONSTANTS
  Dates = {1, 2, 3, 4, 5, 6}
  N = 51
INVARIANT TypeOK
INVARIANT Monotone
INVARIANT ChainAgrees
INVARIANT WellFormed
INVARIANT ExhaustOnlyWhenFull
PROPERTY NoReuse
CHECK_DEADLOCK FALSE
