----------------------------- MODULE ActionOpen -----------------------------
(***************************************************************************)
(* `zorg action open PAGE LINE [OPTION]` (C17): which targets a line        *)
(* offers, and the protocol messages zorg answers with.                     *)
(*                                                                         *)
(* A line is a sequence of words [c |-> class, txt, core, ...]:             *)
(*   "kind" "prio" "sdate"            the prefix of an item                 *)
(*   "zid"                            a ZID word (primary or not: by position)*)
(*   "plink" [page, anchor]           [[page]] / [[page#anchor]]            *)
(*   "llink" [id]   "glink" [id]   "rlink" [id]   "ulink" [id]              *)
(*   "plain"                          anything else                         *)
(* txt is the word as written (possibly wrapped in punctuation), core the    *)
(* word without the wrapping.  A message is <<kind, argument>>.              *)
(***************************************************************************)
EXTENDS Naturals, Sequences, FiniteSets, TLC

IsTargetClass(c) == c \in {"plink", "llink", "glink", "rlink", "ulink"}
IsPrefixClass(c) == c \in {"kind", "prio", "sdate"}

\* The primary ZID is the ZID in identity position: directly after the prefix words.  Every other ZID is a target;
\* in a .zoq page (rendered results) every ZID is.
RECURSIVE TargetsFrom(_, _, _)
TargetsFrom(ws, passed, isZoq) ==       \* passed: the identity position is behind us
  IF ws = << >> THEN << >>
  ELSE LET w == ws[1] IN
       IF IsTargetClass(w.c) THEN << w >> \o TargetsFrom(Tail(ws), TRUE, isZoq)     \* a link in identity position: no primary ZID
       ELSE IF w.c = "zid" THEN (IF passed \/ isZoq THEN << w >> ELSE << >>) \o TargetsFrom(Tail(ws), TRUE, isZoq)
       ELSE TargetsFrom(Tail(ws), passed \/ ~IsPrefixClass(w.c), isZoq)
Targets(line, isZoq) == TargetsFrom(line, FALSE, isZoq)

\* what opening ONE target answers; Owner maps ZIDs / IDs / RIDs to the page of the indexed note that owns them
Open(t, Owner) ==
  CASE t.c = "plink" -> << << "EDIT", "<Z>/" \o t.page \o ".zo" >> >>
                        \o (IF t.anchor = "" THEN << >> ELSE << << "SEARCH", "LID::" \o t.anchor >> >>)
    [] t.c = "llink" -> << << "SEARCH", "LID::" \o t.id >> >>
    [] t.c = "glink" -> IF <<"ID", t.id>> \in DOMAIN Owner
                        THEN << << "EDIT", "<Z>/" \o Owner[<<"ID", t.id>>] >>, << "SEARCH", "ID::" \o t.id >> >> ELSE << << "ECHO", "" >> >>
    [] t.c = "rlink" -> IF <<"RID", t.id>> \in DOMAIN Owner
                        THEN << << "EDIT", "<Z>/" \o Owner[<<"RID", t.id>>] >>, << "SEARCH", "RID::" \o t.id >> >> ELSE << << "ECHO", "" >> >>
    [] t.c = "ulink" -> << << "ECHO", "" >> >>                                   \* a named URL is handed to the browser
    [] t.c = "zid"   -> IF <<"ZID", t.core>> \in DOMAIN Owner
                        THEN << << "EDIT", "<Z>/" \o Owner[<<"ZID", t.core>>] >>, << "SEARCH", t.core >> >> ELSE << >>

RECURSIVE JoinTxt(_)
JoinTxt(ts) == IF Len(ts) = 1 THEN ts[1].core ELSE ts[1].core \o " " \o JoinTxt(Tail(ts))
NoOpt == 0
Last  == 99                                     \* stands for the option -1
Respond(line, isZoq, opt, Owner) ==
  LET ts == Targets(line, isZoq) IN
  IF ts = << >> THEN << << "ECHO", "" >> >>
  ELSE IF Len(ts) = 1 THEN Open(ts[1], Owner)
  ELSE IF opt = NoOpt THEN << << "PROMPT", JoinTxt(ts) >> >>
  ELSE IF opt = Last THEN Open(ts[Len(ts)], Owner)
  ELSE IF opt \in 1..Len(ts) THEN Open(ts[opt], Owner)
  ELSE << >>                                                             \* unknown option: nothing is opened
\* the law of the property: choosing option k opens what a line holding only the k-th target opens
OptionLaw(line, isZoq, Owner) ==
  LET ts == Targets(line, isZoq) IN
  Len(ts) > 1 => /\ \A k \in 1..Len(ts) : Respond(line, isZoq, k, Owner) = Respond(<< [c |-> "plain", txt |-> "see", core |-> "see"], ts[k] >>, isZoq, NoOpt, Owner)
                 /\ Respond(line, isZoq, Last, Owner) = Respond(line, isZoq, Len(ts), Owner)
=============================================================================
