------------------------------- MODULE Output -------------------------------
(***************************************************************************)
(* What the rendered result of a query must look like (C09).               *)
(*                                                                         *)
(* M       the matching notes: [text, page, line, kind, prio, cd, md,      *)
(*         tags : [areas, contexts, people, projects : Seq(text)],         *)
(*         keys, links : Seq(text), vals : Seq([key, val]), sec : Seq(text)]*)
(* q       [select : [t, ...], group : Seq(dim), order : Seq(key)]         *)
(* E       the entries of the rendered output in order of appearance:      *)
(*         [path : <<l1, l2, l3, l4>> labels of the enclosing headers by    *)
(*          level ("" = no header of that level), text]                     *)
(* All texts are sequences of code points.                                  *)
(***************************************************************************)
EXTENDS Naturals, Sequences, FiniteSets, TLC

Range(s) == { s[i] : i \in DOMAIN s }
RECURSIVE LexLess(_, _)
LexLess(a, b) == IF b = << >> THEN FALSE ELSE IF a = << >> THEN TRUE
                 ELSE IF a[1] # b[1] THEN a[1] < b[1] ELSE LexLess(Tail(a), Tail(b))
LexLeq(a, b) == a = b \/ LexLess(a, b)

\* sort a set of texts (code-point order)
RECURSIVE SortT(_)
SortT(S) == IF S = {} THEN << >> ELSE LET m == CHOOSE x \in S : \A y \in S : LexLeq(x, y) IN << m >> \o SortT(S \ {m})
RECURSIVE JoinBar(_, _)
Bar == << 32, 124, 32 >>                                      \* " | "
JoinBar(sym, s) == IF s = << >> THEN << >> ELSE IF Len(s) = 1 THEN sym \o s[1] ELSE sym \o s[1] \o Bar \o JoinBar(sym, Tail(s))

\* ----- the value of a note for a GROUP BY dimension
TagLabel(sym, names) == JoinBar(<< sym >>, SortT(Range(names)))
TypeLabel(kind) == CASE kind \in {"o", "<", ">"} -> << 49, 32, 124, 32, 79, 80, 69, 78, 32, 84, 79, 68, 79, 83 >>                   \* "1 | OPEN TODOS"
                     [] kind = "x" -> << 50, 32, 124, 32, 68, 79, 78, 69, 32, 84, 79, 68, 79, 83 >>                                  \* "2 | DONE TODOS"
                     [] kind = "~" -> << 51, 32, 124, 32, 67, 65, 78, 67, 69, 76, 69, 68, 32, 84, 79, 68, 79, 83 >>                  \* "3 | CANCELED TODOS"
                     [] kind = "-" -> << 52, 32, 124, 32, 78, 79, 84, 69, 83 >>                                                       \* "4 | NOTES"
RECURSIVE NonEmpty(_)
NonEmpty(s) == IF s = << >> THEN << >> ELSE (IF s[1] = << >> THEN << >> ELSE << s[1] >>) \o NonEmpty(Tail(s))
DropZo(p) == IF Len(p) >= 3 /\ SubSeq(p, Len(p) - 2, Len(p)) = << 46, 122, 111 >> THEN SubSeq(p, 1, Len(p) - 3) ELSE p
Label(dim, n) ==
  CASE dim = "AREA"      -> TagLabel(35, n.tags.areas)
    [] dim = "CONTEXT"   -> TagLabel(64, n.tags.contexts)
    [] dim = "PERSON"    -> TagLabel(37, n.tags.people)
    [] dim = "PROJECT"   -> TagLabel(43, n.tags.projects)
    [] dim = "FILE"      -> << 91, 91 >> \o DropZo(n.page) \o << 93, 93 >>
    [] dim = "NOTE_TYPE" -> TypeLabel(n.kind)
    [] dim = "PRIORITY"  -> n.prio
    [] dim = "SECTION"   -> JoinBar(<< >>, NonEmpty(n.sec))
PathOf(q, n) == [L \in 1..4 |-> IF L <= Len(q.group) THEN Label(q.group[L], n) ELSE << >>]

\* ----- ORDER BY keys; `none` = page path, then line number (a number)
\* asBuilt: the recorded deviation - line numbers are compared as text ("10" before "9") under `none`
KeyLessG(k, a, b, asBuilt) ==
                    CASE k = "ALPHA" -> LexLess(a.alpha, b.alpha)
                      [] k = "CREATE_DATE" -> a.cd < b.cd
                      [] k = "MODIFY_DATE" -> a.md < b.md
                      [] k = "NOTE_TYPE" -> LexLess(TypeLabel(a.kind), TypeLabel(b.kind))
                      [] k = "PRIORITY" -> LexLess(a.prio, b.prio)
                      [] k = "NONE" -> LexLess(a.page, b.page)
                                       \/ (a.page = b.page /\ IF asBuilt THEN LexLess(a.linetxt, b.linetxt) ELSE a.line < b.line)
KeyLess(k, a, b) == KeyLessG(k, a, b, FALSE)
KeyEq(k, a, b) == ~KeyLess(k, a, b) /\ ~KeyLess(k, b, a)
RECURSIVE TupleLessG(_, _, _, _)
TupleLessG(ks, a, b, asBuilt) ==
                       IF ks = << >> THEN FALSE
                       ELSE KeyLessG(ks[1], a, b, asBuilt) \/ (KeyEq(ks[1], a, b) /\ TupleLessG(Tail(ks), a, b, asBuilt))
TupleLess(ks, a, b) == TupleLessG(ks, a, b, FALSE)
RECURSIVE PathLess(_, _)
PathLess(p, r) == IF p = << >> THEN FALSE ELSE LexLess(p[1], r[1]) \/ (p[1] = r[1] /\ PathLess(Tail(p), Tail(r)))

\* ----- what a leaf lists for a select form
Distinct(seqOfSeqs) == UNION { Range(s) : s \in Range(seqOfSeqs) }
Selected(sel, ns) ==       \* ns : set of notes of one leaf  ->  set of texts
  CASE sel.t = "AREA"     -> UNION { Range(n.tags.areas) : n \in ns }
    [] sel.t = "CONTEXT"  -> UNION { Range(n.tags.contexts) : n \in ns }
    [] sel.t = "PERSON"   -> UNION { Range(n.tags.people) : n \in ns }
    [] sel.t = "PROJECT"  -> UNION { Range(n.tags.projects) : n \in ns }
    [] sel.t = "PROPERTY" -> UNION { { n.vals[i].key : i \in DOMAIN n.vals } : n \in ns }
    [] sel.t = "PROPVALS" -> UNION { { n.vals[i].val : i \in { j \in DOMAIN n.vals : n.vals[j].key = sel.key } } : n \in ns }
    [] sel.t = "LINKS"    -> UNION { Range(n.links) : n \in ns }
    [] sel.t = "FILE"     -> { n.page : n \in ns }
    [] sel.t = "NOTE"     -> { n.text : n \in ns }

\* ----- the clauses of C09; each returns TRUE or names what is wrong
Clauses(M, q, E) ==
  LET sel    == IF q.select.t = "COUNT" THEN q.select.of ELSE q.select
      notes  == Range(M)
      paths  == { PathOf(q, n) : n \in notes }
      leaf(p) == { n \in notes : PathOf(q, n) = p }
      ents(p) == { i \in DOMAIN E : E[i].path = p }
      alphaOnly == Range(q.order) = {"ALPHA"}
      noteOf(i) == CHOOSE n \in notes : n.text = E[i].text
  IN
  { c \in {"groups", "group-order", "each-once", "note-order", "note-order-as-built", "values", "values-sorted", "count"} :
     CASE c = "groups" ->          \* the header paths that occur are exactly the group values of the matching notes
            ~({ E[i].path : i \in DOMAIN E } = { p \in paths : q.select.t \in {"COUNT", "NOTE"} \/ Selected(sel, leaf(p)) # {} })
       [] c = "group-order" ->     \* groups are contiguous and appear in increasing label order at every level
            ~(\A i \in 1..(Len(E) - 1) : E[i].path = E[i+1].path \/ PathLess(E[i].path, E[i+1].path))
       [] c = "each-once" ->       \* select note: every matching note exactly once, under its own group
            q.select.t = "NOTE" /\ ~( /\ Len(E) = Cardinality(notes)
                                     /\ \A n \in notes : \E i \in DOMAIN E : E[i].text = n.text /\ E[i].path = PathOf(q, n) )
       [] c = "note-order" ->      \* inside a group: the ORDER BY keys decide, ties in any order
            q.select.t = "NOTE" /\ { E[i].text : i \in DOMAIN E } \subseteq { n.text : n \in notes }
            /\ ~(\A i \in 1..(Len(E) - 1) : E[i].path = E[i+1].path => ~TupleLess(q.order, noteOf(i+1), noteOf(i)))
       [] c = "note-order-as-built" ->   \* the same with the recorded deviation: tells that finding from any other disorder
            q.select.t = "NOTE" /\ { E[i].text : i \in DOMAIN E } \subseteq { n.text : n \in notes }
            /\ ~(\A i \in 1..(Len(E) - 1) : E[i].path = E[i+1].path => ~TupleLessG(q.order, noteOf(i+1), noteOf(i), TRUE))
       [] c = "values" ->          \* other selects: exactly the distinct values carried by the group's notes
            q.select.t \notin {"NOTE", "COUNT"}
            /\ ~(\A p \in paths : /\ { E[i].text : i \in ents(p) } = Selected(sel, leaf(p))
                                  /\ Cardinality(ents(p)) = Cardinality(Selected(sel, leaf(p))))
       [] c = "values-sorted" ->
            q.select.t \notin {"NOTE", "COUNT"} /\ (alphaOnly \/ q.select.t = "FILE")
            /\ ~(\A i \in 1..(Len(E) - 1) : E[i].path = E[i+1].path => LexLess(E[i].text, E[i+1].text))
       [] c = "count" ->           \* count(x) = number of entries selecting x yields for the same group
            q.select.t = "COUNT"
            /\ ~(\A p \in paths : \E i \in ents(p) : Cardinality(ents(p)) = 1 /\ E[i].n = Cardinality(Selected(sel, leaf(p)))) }
OutputOK(M, q, E) == Clauses(M, q, E) = {}
=============================================================================
