------------------------------ MODULE MC_Output ------------------------------
(* C09 case generator: select form x GROUP BY list x ORDER BY list.           *)
EXTENDS QueryGrammar, Json
CONSTANT Deep
VARIABLE c
Wheres == { "W - | o | x | ~ | < | >", "W o | -" }
Dims == { a \in GroupAtoms : a[2] # "" }
GLists == { <<>> } \cup Lists(Dims, IF Deep THEN 2 ELSE 1)
          \cup { l \in [1..2 -> Dims] : l[1][2] \in {"FILE", "PROJECT", "NOTE_TYPE", "SECTION"} }
          \cup { l \in [1..3 -> Dims] : l[1][2] \in {"FILE", "SECTION"} /\ l[2][2] \in {"NOTE_TYPE", "CONTEXT", "SECTION"} /\ l[3][2] \in {"PRIORITY", "PROJECT", "SECTION"} }
          \cup { l \in [1..4 -> Dims] : l[1][2] = "PERSON" /\ l[2][2] = "FILE" /\ l[3][2] \in {"NOTE_TYPE", "AREA"} /\ l[4][2] \in {"PRIORITY", "CONTEXT"} }
OLists == Lists(OrderAtoms, IF Deep THEN 2 ELSE 1) \cup { l \in [1..2 -> OrderAtoms] : l[1][2] \in {"NOTE_TYPE", "PRIORITY"} }
Sels == { s \in Selects : Deep \/ s[1] \in {"note", "+", "@", "prop", "prop:due", "links", "file", "count(note)", "count(+)", "count(prop:due)", "count(file)"} }
G(l) == IF l = <<>> THEN "" ELSE " G " \o JoinT(l)
Cases == { [txt |-> "S " \o s[1] \o " " \o w \o " O " \o JoinT(o) \o G(g),
            q |-> [select |-> s[2], order |-> Names(o), group |-> Names(g)]]
           : s \in Sels, w \in Wheres, o \in OLists, g \in GLists }
Init == c \in Cases
Next == UNCHANGED c
Spec == Init /\ [][Next]_c
EmitCase == PrintT(ToJson(c))
=============================================================================
