----------------------------- MODULE Trace_Page -----------------------------
(* Batch validation of recorded compilations against PageSem.               *)
(* One NDJSON line = one compile event of the real compiler:                *)
(*   [id, page, today, res : "ok" | "errors" | "exc", notes : <<obs,...>>]  *)
(* `page` is the abstract page that was rendered to text by the binding,    *)
(* `notes` the projection of the real Note objects.  For each record TLC    *)
(* evaluates Notes(page, today) and prints                                  *)
(*   ["RES", id, res, expected count, observed count, [[note#, field],..]]   *)
(* listing every field that differs; the binding decides nothing.           *)
EXTENDS PageSem, Json, IOUtils
VARIABLES tid, phase
Recs == ndJsonDeserialize(IOEnv.ZV_TRACE)

SeqSet(s)   == { s[i] : i \in DOMAIN s }
PairSet(s)  == { << s[i][1], s[i][2] >> : i \in DOMAIN s }
Fields == {"line", "kind", "prio", "zid", "cdate", "mdate", "body", "tags", "links", "props", "sec", "blk"}
FieldEq(f, e, o) ==
  CASE f = "line"  -> e.line = o.line
    [] f = "kind"  -> e.kind = o.kind
    [] f = "prio"  -> e.prio = o.prio
    [] f = "zid"   -> e.zid = o.zid
    [] f = "cdate" -> e.cdate = o.cdate
    [] f = "mdate" -> e.mdate = o.mdate
    [] f = "body"  -> e.body = o.body
    [] f = "tags"  -> e.tags = PairSet(o.tags)
    [] f = "links" -> e.links = SeqSet(o.links)
    [] f = "props" -> e.props = PairSet(o.props)
    [] f = "sec"   -> \A L \in 1..4 : e.sec[L] = o.sec[L]
    [] f = "blk"   -> e.blk = o.blk

FieldOf(f, e) ==
  CASE f = "line" -> e.line [] f = "kind" -> e.kind [] f = "prio" -> e.prio [] f = "zid" -> e.zid
    [] f = "cdate" -> e.cdate [] f = "mdate" -> e.mdate [] f = "body" -> e.body [] f = "tags" -> e.tags
    [] f = "links" -> e.links [] f = "props" -> e.props [] f = "sec" -> e.sec [] f = "blk" -> e.blk

RECURSIVE AllOK(_)
AllOK(ws) == ws = <<>> \/ (WordOK(Head(ws)) /\ AllOK(Tail(ws)))
LineWords(l) == IF l.k = "blank" THEN <<>> ELSE IF l.k = "item" THEN l.w \o ContWords(l.cont) ELSE l.w
GlueOK(p) == /\ AllOK(p.title) /\ \A i \in DOMAIN p.head : AllOK(p.head[i])
             /\ \A i \in DOMAIN p.body : AllOK(LineWords(p.body[i]))
             /\ WellFormedPage(p)

Verdict(r) ==
  IF ~GlueOK(r.page) THEN << "GLUE", r.id >>
  ELSE LET exp == Notes(r.page, r.today)
           n   == IF Len(exp) < Len(r.notes) THEN Len(exp) ELSE Len(r.notes)
           bad == { << i, f >> \in (1..n) \X Fields : ~FieldEq(f, exp[i], r.notes[i]) }
           \* each differing field with the value the specification expects (for the replay file)
           det == { << b[1], b[2], FieldOf(b[2], exp[b[1]]) >> : b \in bad }
       IN << "RES", r.id, r.res, Len(exp), Len(r.notes), det >>

\* C12 records (mode = "roundtrip") additionally carry, per observed note, the text the real code emits for it
\* (Note.to_string), and `notes2`: the notes compiled from the page "# T", blank line, the emitted texts.
\* The emitted text must be RenderNote of the expected note, and the second compilation must give
\* Notes(Page2(page)) - which the design-level theorem MC_PageItem!RoundTrip relates to the original notes -
\* on the fields the property names: kind, ZID, body, own tags / links / properties, the dates when the
\* note has a ZID, the priority of todos that are not done or cancelled.
Norm(it) == [it EXCEPT !.gap = 1,
                       !.prio = IF it.kind \in {"o", "<", ">"} THEN (IF it.prio = None THEN "P3" ELSE it.prio) ELSE None]
RECURSIVE ItemsOf(_)
ItemsOf(b) == IF b = <<>> THEN <<>> ELSE (IF IsItem(Head(b)) THEN <<Norm(Head(b))>> ELSE <<>>) \o ItemsOf(Tail(b))
Page2(p) == [title |-> <<Plain("T")>>, head |-> <<>>, body |-> ItemsOf(p.body)]
RTFieldsOf(e) == {"kind", "zid", "body", "tags", "links", "props"}
                   \cup (IF e.zid # None THEN {"cdate", "mdate"} ELSE {})
                   \cup (IF e.kind \in {"o", "<", ">"} THEN {"prio"} ELSE {})
VerdictRT(r) ==
  IF ~GlueOK(r.page) THEN << "GLUE", r.id >>
  ELSE LET exp  == Notes(r.page, r.today)
           exp2 == Notes(Page2(r.page), r.today)
           n    == IF Len(exp) < Len(r.notes) THEN Len(exp) ELSE Len(r.notes)
           n2   == IF Len(exp2) < Len(r.notes2) THEN Len(exp2) ELSE Len(r.notes2)
           badT == { << i, "text", RenderNote(exp[i]) \o "\n" >> : i \in { j \in 1..n : r.notes[j].text # RenderNote(exp[j]) \o "\n" } }
           bad2 == { << b[1], "rt." \o b[2], FieldOf(b[2], exp2[b[1]]) >> :
                        b \in { c \in (1..n2) \X Fields : c[2] \in RTFieldsOf(exp2[c[1]]) /\ ~FieldEq(c[2], exp2[c[1]], r.notes2[c[1]]) } }
       IN << "RES", r.id, r.res2, Len(exp2), Len(r.notes2), badT \cup bad2 >>

TInit == tid \in DOMAIN Recs /\ phase = 0
TNext == phase = 0 /\ phase' = 1 /\ UNCHANGED tid /\ PrintT(ToJson(IF "mode" \in DOMAIN Recs[tid] /\ Recs[tid].mode = "roundtrip" THEN VerdictRT(Recs[tid]) ELSE Verdict(Recs[tid])))
TraceSpec == TInit /\ [][TNext]_<<tid, phase>>
=============================================================================
