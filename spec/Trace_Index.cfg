SPECIFICATION TraceSpec
CONSTANTS
  Pages = {1, 2, 3, 4, 5}
  MaxNotes = 50
  MaxDay = 6
  MaxSteps = 5
  MaxUid = 200
  Kinds <- KindsAll
  Feature <- FeatAll
CHECK_DEADLOCK FALSE
