----------------------------- MODULE Trace_Zid -----------------------------
(* Validation of recorded histories of the real ZIDManager against Zid.tla. *)
(* One NDJSON line = one history:                                           *)
(*   [id, init : <<file value per date>>, ev : <<event, ...>>]               *)
(* A file value / returned suffix is the sequence of its characters; an      *)
(* absent key is <<>>.  An event is                                          *)
(*   [op |-> "alloc", d, res |-> "ok",  s |-> chars, nxt |-> chars]          *)
(*   [op |-> "alloc", d, res |-> "out", nxt |-> chars]   explicit failure    *)
(*   [op |-> "alloc", d, res |-> "exc", nxt |-> chars]   any other exception *)
(*   [op |-> "lost",  d, nxt |-> chars]     killed between write and return  *)
(*   [op |-> "restart"]                                                      *)
(* Every history is an initial state (tid); a history is accepted iff the    *)
(* state l = Len(ev) + 1 is reached, which prints <<"ACCEPT", id>>.          *)
EXTENDS Zid, Json, IOUtils
VARIABLES tid, l
tvars == << vars, tid, l >>

Traces == ndJsonDeserialize(IOEnv.ZV_TRACE)

\* characters -> digit indices; a value that is not a well-formed suffix is "some
\* implementation-defined marker": it may only stand for Exhausted
SufOf(chars) == [i \in DOMAIN chars |-> IdxOf(chars[i])]
Abs(chars) == IF chars = <<>> THEN Unset
              ELSE IF IsSuffix(SufOf(chars)) THEN SufOf(chars) ELSE Exhausted

T == Traces[tid]
E == T.ev[l]

TInit == /\ tid \in DOMAIN Traces
         /\ l = 1
         /\ nextIds = [d \in Dates |-> IF d \in DOMAIN Traces[tid].init THEN Abs(Traces[tid].init[d]) ELSE Unset]
         /\ burntCnt = [d \in Dates |-> IF nextIds[d] = Unset THEN 0
                                        ELSE IF nextIds[d] = Exhausted THEN Total ELSE Rank(nextIds[d])]
         /\ last = NoAlloc /\ proc = 0

More == l <= Len(T.ev) /\ l' = l + 1 /\ UNCHANGED tid

TAllocOk   == /\ More /\ E.op = "alloc" /\ E.res = "ok"
              /\ Alloc(E.d)
              /\ last'.s = SufOf(E.s)                \* the ZID handed out is the one the chain prescribes
              /\ nextIds'[E.d] = Abs(E.nxt)          \* and the file holds its successor
TAllocOut  == /\ More /\ E.op = "alloc" /\ E.res = "out"
              /\ AllocFails(E.d)
              /\ nextIds'[E.d] = Abs(E.nxt)
TLost      == /\ More /\ E.op = "lost"
              /\ AllocLost(E.d)
              /\ nextIds'[E.d] = Abs(E.nxt)
TRestart   == /\ More /\ E.op = "restart" /\ Restart
TDone      == /\ l = Len(T.ev) + 1 /\ l' = l + 1 /\ UNCHANGED << vars, tid >>
              /\ PrintT(<< "ACCEPT", T.id >>)

TNext == TAllocOk \/ TAllocOut \/ TLost \/ TRestart \/ TDone
TraceSpec == TInit /\ [][TNext]_tvars
=============================================================================
