------------------------------ MODULE MC_Rename ------------------------------
(* C14 case generator: (A, B) pairs x every sequence of up to three tokens     *)
(* drawn from links to A, to A with anchors, and to A's adversarial            *)
(* neighbours (proper prefix, extension, suffix-sharing, path-extensions,      *)
(* names with the extension), plus look-alike text.                            *)
EXTENDS FileOps, Json
CONSTANT Deep
VARIABLE c
Pairs == { <<"pg", "fresh">>, <<"pg", "pgx">>, <<"sub/pg", "sub/moved">>, <<"pg", "sub/pg">>, <<"a_b", "a">> }
Toks(A) == { LinkTok(A, ""), LinkTok(A, "anc"), LinkTok(A, "s1_2"), LinkTok(A \o "b", ""), LinkTok(A \o "_", "anc"), LinkTok("x" \o A, ""),
             LinkTok("d/" \o A, ""), LinkTok(A \o "/d", ""), LinkTok(A \o ".zo", ""), LinkTok("other", A),
             TextTok(A), TextTok("[" \o A \o "]"), TextTok("[[" \o A), TextTok(A \o "]]"), TextTok("((" \o A \o "))"), TextTok("[#" \o "gid" \o "]") }
Seqs(A) == UNION { [1..k -> Toks(A)] : k \in 1..(IF Deep THEN 3 ELSE 2) }
Cases == UNION { { [a |-> p[1], b |-> p[2], before |-> RenderToks(ts), after |-> RenderToks(RenameToks(ts, p[1], p[2]))] : ts \in Seqs(p[1]) }
                 : p \in Pairs }
Init == c \in Cases
Next == UNCHANGED c
Spec == Init /\ [][Next]_c
EmitCase == PrintT(ToJson(c))
=============================================================================
