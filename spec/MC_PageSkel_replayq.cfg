SPECIFICATION SkSpec
CONSTANTS
  MaxLines = 5
  MaxHdrs = 4
  DateChoices = {TRUE, FALSE}
  OwnChoices = {TRUE, FALSE}
  WithCmt = TRUE
  Det = TRUE
INVARIANT Refines
INVARIANT LegalAgrees
INVARIANT NoLeak
INVARIANT NonItemsNeverNotes
INVARIANT LinesIncrease
INVARIANT EmitPage
CHECK_DEADLOCK FALSE
