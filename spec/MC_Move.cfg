SPECIFICATION Spec
INVARIANT EmitCase
CHECK_DEADLOCK FALSE
