----------------------------- MODULE Trace_Bus -----------------------------
(* Validation of recorded `zorg edit` runs against Bus.tla.                  *)
(* One NDJSON line = one history of processes on one notes directory:        *)
(*   [id, trace : << effect, ... >>]                                         *)
(* an effect is what harness/interpose.py observed below zorg, in program     *)
(* order:  <<"commit","db">>  <<"w", page | "hash" | "wl" | "ids">>           *)
(* <<"unlink","ka" | "db">>  <<"exit", "ok" | "error">>; inputs are logged as  *)
(* <<"start", "edit" | "reindex" | "create">>, <<"user", edits>> (pages edited  *)
(* while no process runs) and, for each start of the                            *)
(* editor, <<"vim", paths, focus, edits, keep-alive>> where edits / keep-alive*)
(* are what the scripted user did in that session (inputs, not effects).      *)
(* Every step is one Bus action whose `out` is the next piece of the trace.   *)
(* Accepted iff the whole trace is consumed (prints <<"ACCEPT", id>>).        *)
EXTENDS Bus, Json, IOUtils
VARIABLES tid, l, lastc          \* lastc: the last consumed effect was a commit
tvars == << vars, tid, l, lastc >>

TPageSeq == << "a.zo", "b.zo", "c.zo" >>
TCli == << "a.zo", "q.zoq" >>
TZoq == { "q.zoq" }
TKaPaths == { [paths |-> << "b.zo", "a.zo" >>, focus |-> "a.zo"], [paths |-> << "c.zo" >>, focus |-> "c.zo"],
              [paths |-> << "q.zoq", "b.zo" >>, focus |-> "q.zoq"] }

Recs == ndJsonDeserialize(IOEnv.ZV_TRACE)
T == Recs[tid]
Diag == "ZV_DIAG" \in DOMAIN IOEnv /\ IOEnv.ZV_DIAG = "1"

TInit == Init /\ tid \in DOMAIN Recs /\ l = 1 /\ lastc = FALSE

\* runs of commits are one observable ("one or more commits"), also across two actions
Eff == IF lastc /\ out' # << >> /\ out'[1] = Commit THEN Tail(out') ELSE out'
Consume == /\ l + Len(Eff) - 1 <= Len(T.trace)
           /\ Eff = SubSeq(T.trace, l, l + Len(Eff) - 1)
           /\ l' = l + Len(Eff)
           /\ lastc' = IF Eff = << >> THEN lastc ELSE Eff[Len(Eff)] = Commit
           /\ UNCHANGED tid
           /\ (Diag => PrintT(<< "AT", T.id, l' >>))

TNext == \/ (Next /\ Consume)
         \/ /\ l = Len(T.trace) + 1 /\ ~running /\ l' = l + 1 /\ UNCHANGED << vars, tid, lastc >>
            /\ PrintT(<< "ACCEPT", T.id >>)
TraceSpec == TInit /\ [][TNext]_tvars
=============================================================================
