SPECIFICATION Spec
CONSTANTS
  PageSeq <- MCPageSeq
  CliPaths <- MCCli
  KaPaths <- MCKaPaths
  ZoqFiles <- MCZoq
  MaxSess = 3
  MaxProc = 2
INVARIANT TypeOK
INVARIANT QuiescentEditor
INVARIANT EditOnlyIfAsked
INVARIANT AtMostOneEdit
INVARIANT KaConsumed
INVARIANT WriteBacksPending
INVARIANT AbortOnlyIfBroken
INVARIANT CleanExit
PROPERTY EventsFirst
PROPERTY Terminates
CHECK_DEADLOCK FALSE
