------------------------------ MODULE MC_Filter ------------------------------
(* C03 / C04 case generator: every atom of the table (corpus/filter_atoms.json: *)
(* query spelling + denoted and-filter) and every composition  a b,  a | b,    *)
(* (a | b) c,  a (b | c) | d  over the basis atoms, evaluated by Filter!Result  *)
(* on the designed universe (read from the real index by the binding).          *)
(* Each case is one initial state; EmitCase prints [txt, where, exp].           *)
EXTENDS Filter, Json, IOUtils
CONSTANT Depth        \* 1: atoms, 2: + pairs, 3: + triples
VARIABLE q
Atoms == JsonDeserialize(IOEnv.ZV_ATOMS)
U0    == JsonDeserialize(IOEnv.ZV_UNIV).notes
Basis == { i \in DOMAIN Atoms : Atoms[i].basis }

\* juxtaposition: one and-filter holding the atoms of both
And2(f, g) == [kinds |-> f.kinds \o g.kinds, prios |-> f.prios \o g.prios, tags |-> f.tags \o g.tags,
               cr |-> f.cr \o g.cr, mr |-> f.mr \o g.mr, props |-> f.props \o g.props, texts |-> f.texts \o g.texts,
               files |-> f.files \o g.files, links |-> f.links \o g.links, ors |-> f.ors \o g.ors]
Empty == [kinds |-> <<>>, prios |-> <<>>, tags |-> <<>>, cr |-> <<>>, mr |-> <<>>, props |-> <<>>, texts |-> <<>>,
          files |-> <<>>, links |-> <<>>, ors |-> <<>>]
Sub(fs) == [Empty EXCEPT !.ors = << fs >>]                    \* ( ... ) as an atom of an and-filter
\* kinds / priorities of one and-filter pool into sets: two kind atoms side by side mean the union (C04)
Cases ==
  { [txt |-> Atoms[i].txt, where |-> << Atoms[i].f >>] : i \in DOMAIN Atoms }
  \cup (IF Depth < 2 THEN {} ELSE
     { [txt |-> Atoms[i].txt \o " " \o Atoms[j].txt, where |-> << And2(Atoms[i].f, Atoms[j].f) >>] : i \in Basis, j \in Basis }
     \cup { [txt |-> Atoms[i].txt \o " | " \o Atoms[j].txt, where |-> << Atoms[i].f, Atoms[j].f >>] : i \in Basis, j \in Basis })
  \cup (IF Depth < 3 THEN {} ELSE
     { [txt |-> "(" \o Atoms[i].txt \o " | " \o Atoms[j].txt \o ") " \o Atoms[k].txt,
        where |-> << And2(Sub(<< Atoms[i].f, Atoms[j].f >>), Atoms[k].f) >>] : i \in Basis, j \in Basis, k \in Basis }
     \cup { [txt |-> Atoms[k].txt \o " (" \o Atoms[i].txt \o " | " \o Atoms[j].txt \o " " \o Atoms[k].txt \o ") | " \o Atoms[i].txt,
             where |-> << And2(Atoms[k].f, Sub(<< Atoms[i].f, And2(Atoms[j].f, Atoms[k].f) >>)), Atoms[i].f >>] : i \in Basis, j \in Basis, k \in Basis })
\* parentheses nested two and three levels deep, over a small basis (every depth; the tree builder keeps a stack of groups)
Mini == { i \in Basis : Atoms[i].txt \in {"o", "P1", "+pj1", "@cx1"} }
P(i) == Atoms[i].txt
Nested ==
  { [txt |-> P(k) \o " (" \o P(i) \o " (" \o P(j) \o " | " \o P(l) \o ") | " \o P(m) \o ")",
     where |-> << And2(Atoms[k].f, Sub(<< And2(Atoms[i].f, Sub(<< Atoms[j].f, Atoms[l].f >>)), Atoms[m].f >>)) >>]
    : i \in Mini, j \in Mini, k \in Mini, l \in Mini, m \in Mini }
  \cup { [txt |-> "((" \o P(i) \o " | " \o P(j) \o ") " \o P(k) \o " | " \o P(l) \o ") " \o P(m),
          where |-> << And2(Sub(<< And2(Sub(<< Atoms[i].f, Atoms[j].f >>), Atoms[k].f), Atoms[l].f >>), Atoms[m].f) >>]
         : i \in Mini, j \in Mini, k \in Mini, l \in Mini, m \in Mini }
  \cup { [txt |-> "(" \o P(i) \o " ((" \o P(j) \o " | " \o P(k) \o ") " \o P(l) \o " | " \o P(m) \o ") | " \o P(i) \o ") | " \o P(j),
          where |-> << Sub(<< And2(Atoms[i].f, Sub(<< And2(Sub(<< Atoms[j].f, Atoms[k].f >>), Atoms[l].f), Atoms[m].f >>)), Atoms[i].f >>), Atoms[j].f >>]
         : i \in Mini, j \in Mini, k \in Mini, l \in Mini, m \in Mini }
Init == q \in Cases \cup (IF Depth < 2 THEN {} ELSE Nested)
Next == UNCHANGED q
Spec == Init /\ [][Next]_q
EmitCase == PrintT(ToJson([txt |-> q.txt, where |-> q.where, exp |-> Result(U0, q.where)]))
\* de Morgan-style sanity of the denotation itself: a negated atom is the complement, conjunction is intersection
Complement == \A i, j \in DOMAIN Atoms :
                 (Atoms[j].txt = "!" \o Atoms[i].txt /\ Atoms[i].f.props = <<>>) =>
                     Result(U0, << Atoms[j].f >>) = { U0[k].zid : k \in DOMAIN U0 } \ Result(U0, << Atoms[i].f >>)
=============================================================================
