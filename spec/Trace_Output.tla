---------------------------- MODULE Trace_Output ----------------------------
(* Batch validation of rendered query results against Output.tla.            *)
(*   ZV_UNIV : NDJSON universes [notes : <<note,...>>]  (notes in Output shape) *)
(*   ZV_TRACE: NDJSON [id, u, m : <<indices of the matching notes>>, q, e]     *)
EXTENDS Output, Json, IOUtils
VARIABLES tid, phase
Univ == ndJsonDeserialize(IOEnv.ZV_UNIV)
Recs == ndJsonDeserialize(IOEnv.ZV_TRACE)
Verdict(r) == LET U == Univ[r.u].notes
                  M == [i \in DOMAIN r.m |-> U[r.m[i]]]
              IN << "RES", r.id, Clauses(M, r.q, r.e) >>
TInit == tid \in DOMAIN Recs /\ phase = 0
TNext == phase = 0 /\ phase' = 1 /\ UNCHANGED tid /\ PrintT(ToJson(Verdict(Recs[tid])))
TraceSpec == TInit /\ [][TNext]_<<tid, phase>>
=============================================================================
