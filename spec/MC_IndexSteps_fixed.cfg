SPECIFICATION Spec
CONSTANTS
  Pages = {1, 2}
  MaxZid = 8
  MaxCrashes = 2
  HashRule = "fixed"
  Cmds = {"create", "reindex"}
INVARIANT Converges
INVARIANT NoZidTwice
INVARIANT NoTextLost
CHECK_DEADLOCK FALSE
