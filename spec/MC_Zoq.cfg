SPECIFICATION Spec
INVARIANT EmitCase
INVARIANT Idempotent
INVARIANT HeaderKept
INVARIANT NoAccumulation
CHECK_DEADLOCK FALSE
