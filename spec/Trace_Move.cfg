SPECIFICATION TraceSpec
CHECK_DEADLOCK FALSE
