----------------------------- MODULE Trace_Move -----------------------------
(* Batch validation of recorded `note move` runs against FileOps!MoveClauses. *)
EXTENDS FileOps, Json, IOUtils
VARIABLES tid, phase
Recs == ndJsonDeserialize(IOEnv.ZV_TRACE)
SetOf(s) == { s[i] : i \in DOMAIN s }
Norm(n) == [zid |-> n.zid, kind |-> n.kind, words |-> SetOf(n.words), contLines |-> n.contLines,
            tags |-> { << n.tags[i][1], n.tags[i][2] >> : i \in DOMAIN n.tags },
            props |-> { << n.props[i][1], n.props[i][2] >> : i \in DOMAIN n.props }]
NormSet(ns) == { Norm(ns[i]) : i \in DOMAIN ns }
Rec(r) == [src |-> r.src, dest |-> r.dest, src2 |-> r.src2, dest2 |-> r.dest2, a |-> r.a, b |-> r.b, zid |-> r.zid,
           marker |-> r.marker, ok2 |-> r.ok2, same |-> r.same, nsrc |-> NormSet(r.nsrc), ndest |-> NormSet(r.ndest),
           nsrc2 |-> NormSet(r.nsrc2), ndest2 |-> NormSet(r.ndest2)]
TInit == tid \in DOMAIN Recs /\ phase = 0
TNext == phase = 0 /\ phase' = 1 /\ UNCHANGED tid
         /\ PrintT(ToJson(<< "RES", Recs[tid].id, MoveClauses(Rec(Recs[tid])) >>))
TraceSpec == TInit /\ [][TNext]_<<tid, phase>>
=============================================================================
