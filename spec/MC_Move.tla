------------------------------- MODULE MC_Move -------------------------------
(* C10 scenario generator: source pages (title with tag and property, optional *)
(* section with tag and property, three notes of which one may mention another  *)
(* one's ZID, one may have a bullet line, one may consist of its ZID only) x    *)
(* the note to move x marker x destination form.                                *)
EXTENDS PageSem, Json
VARIABLE c
Z(k) == IF k = 1 THEN ZidW("24", "01", "01", "01") ELSE IF k = 2 THEN ZidW("24", "01", "01", "02") ELSE ZidW("24", "01", "01", "03")
Mention(k) == [c |-> "plain", txt |-> CoreTxt(Z(k))]            \* a ZID written as an ordinary word later in a body
Mentions == { <<0, 0>>, <<1, 2>>, <<1, 3>>, <<3, 1>>, <<2, 3>> }   \* <<who, whom>>: note `who` mentions the ZID of `whom`
It(kind, prio, ws, cont) == [k |-> "item", kind |-> kind, prio |-> prio, gap |-> 1, w |-> ws, cont |-> cont]
M(who, m) == IF m[1] = who THEN << Plain("see"), Mention(m[2]), Plain("here") >> ELSE << >>
St(st) == IF st THEN << SDate("24", "06", "12") >> ELSE << >>       \* a modify date in front of the ZID
N1(m, st) == It("-", None, St(st) \o << Z(1), Plain("first"), Tag("projects", "tp_x"), Plain("note") >> \o M(1, m), << >>)
N2(m, withCont, st) == It("o", "P2", St(st) \o << Z(2), Plain("second"), Tag("contexts", "own") >> \o M(2, m),
                      IF withCont THEN << [k |-> "bullet", ind |-> 2, mark |-> "*", w |-> << Plain("detail"), Plain("line") >>] >> ELSE << >>)
N3(m, bare, st) == It("-", None, St(st /\ ~bare) \o << Z(3) >> \o (IF bare THEN << >> ELSE << Plain("third") >>) \o M(3, m), << >>)
Sec == [k |-> "sec", lvl |-> 1, w |-> << Plain("Sec"), Tag("areas", "sa"), Prop("sk", "sv") >>]
Src(m, withSec, withCont, bare, st) ==
  [title |-> << Plain("Src"), Tag("projects", "tp"), Prop("tk", "tv"), IProp("tm", "two words") >>, head |-> << >>,
   body |-> << N1(m, st) >> \o (IF withSec THEN << [k |-> "blank"], Sec, [k |-> "blank"] >> ELSE << >>) \o << N2(m, withCont, st), N3(m, bare, st) >>]
DestForms == { "missing-tmpl", "missing-notmpl", "header-only", "header-blank", "items", "items-blank-end", "two-blocks",
               "sec-last-nl", "sec-last-nonl", "sec-with-items", "same-page" }
ItemIdx(p, which) == CHOOSE i \in DOMAIN p.body : IsItem(p.body[i])
                        /\ Cardinality({ j \in 1..i : IsItem(p.body[j]) }) = which
Cases == { LET p == Src(m, ws, wc, bare, st)  i == ItemIdx(p, which) IN
           [src |-> p, k |-> i, zid |-> CoreTxt(Z(which)), a |-> LineNo(p, i), b |-> LineNo(p, i) + Height(p.body[i]) - 1,
            marker |-> mk, dest |-> d]
           : m \in Mentions, ws \in BOOLEAN, wc \in BOOLEAN, bare \in BOOLEAN, st \in BOOLEAN, which \in 1..3, mk \in {"", "x", "~"}, d \in DestForms }
Init == c \in Cases
Next == UNCHANGED c
Spec == Init /\ [][Next]_c
EmitCase == PrintT(ToJson(c))
=============================================================================
