SPECIFICATION SpecIndexed
CONSTANTS
  Pages = {1, 2}
  MaxNotes = 1
  MaxDay = 1
  MaxSteps = 5
  MaxUid = 3
  Kinds <- KindsSmall
  Feature <- FeatBreak
INVARIANT Agreement
INVARIANT AllZid
INVARIANT UniqueZid
INVARIANT ZidsBelowCounter
INVARIANT RebuildEquivalence
INVARIANT NoGhostPages
INVARIANT GhostAgrees
INVARIANT BrokenOnlyIfWhitelisted
PROPERTY Idempotent
PROPERTY OnlyZidInsertions
PROPERTY StampIff
PROPERTY CountersMonotone
CHECK_DEADLOCK FALSE
