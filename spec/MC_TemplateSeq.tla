---------------------------- MODULE MC_TemplateSeq ----------------------------
(* C16, several pages initialised by ONE process (`zorg edit p1 p2 p3`): every target is judged on its own - the     *)
(* result for a path is InitResult for that path whatever was initialised before it (Independent).  Templates live   *)
(* in different directories and share base names (w/log.zot, h/log.zot), one is used for two targets in a row.       *)
EXTENDS FileOps, Json
VARIABLES pm, c
Pats == {"work", "home", "any"}
Paths == {"work/a.zo", "work/c.zo", "home/b.zo", "plain.zo"}
Matches(p, path) ==
  CASE p = "work" -> path \in {"work/a.zo", "work/c.zo"}
    [] p = "home" -> path = "home/b.zo"
    [] p = "any"  -> TRUE
    [] OTHER -> FALSE
Stem(path) == CASE path = "work/a.zo" -> "a" [] path = "work/c.zo" -> "c" [] path = "home/b.zo" -> "b" [] OTHER -> "plain"
Render(p, path) ==
  CASE p = "work" -> "# Work log " \o Stem(path) \o "\n# (rendered from w/log.zot)\n"
    [] p = "home" -> "# Home log " \o Stem(path) \o "\n# (rendered from h/log.zot)\n"
    [] OTHER      -> "# Any page\n# (rendered from any.zot)\n"
Old == "# Old content\n\n- 240101#01 keep me\n"
Maps == { << "work", "home", "any" >>, << "home", "work" >>, << "any", "work", "home" >>, << "home", "work", "any" >> }
Targets == { << a, b >> \in Paths \X Paths : a # b } \cup { << a, b, d >> \in Paths \X Paths \X Paths : a # b /\ b # d /\ a # d }
RECURSIVE Fold(_, _, _)
Fold(ts, fs, m) == IF ts = << >> THEN fs
                   ELSE LET t == Head(ts) IN Fold(Tail(ts), [fs EXCEPT ![t] = InitResult(fs[t], FALSE, m, t, "", Matches, Render)], m)
Init == pm \in Maps /\ c = << >>
Next == /\ c = << >> /\ UNCHANGED pm
        /\ \E ts \in Targets, ex \in SUBSET Paths :
             LET fs0 == [p \in Paths |-> IF p \in ex THEN Old ELSE ""] IN
             c' = [map |-> pm, targets |-> ts, existing |-> [p \in Paths |-> p \in ex], after |-> Fold(ts, fs0, pm)]
Spec == Init /\ [][Next]_<<pm, c>>
EmitCase == c = << >> \/ PrintT(ToJson(c))
\* every target on its own: what was initialised earlier in the same process does not matter
Independent == c = << >> \/ \A i \in DOMAIN c.targets :
                 LET t == c.targets[i] IN c.after[t] = InitResult(IF c.existing[t] THEN Old ELSE "", FALSE, c.map, t, "", Matches, Render)
Untouched == c = << >> \/ \A p \in Paths : (c.existing[p] => c.after[p] = Old) /\ (p \notin { c.targets[i] : i \in DOMAIN c.targets } /\ ~c.existing[p] => c.after[p] = "")
=============================================================================
