SPECIFICATION Spec
CONSTANT Depth = 3
INVARIANT EmitCase
INVARIANT Complement
CHECK_DEADLOCK FALSE
