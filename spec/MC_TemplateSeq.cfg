SPECIFICATION Spec
INVARIANT EmitCase
INVARIANT Independent
INVARIANT Untouched
CHECK_DEADLOCK FALSE
