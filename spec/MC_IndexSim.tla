---------------------------- MODULE MC_IndexSim ----------------------------
EXTENDS MC_Index
\* Simulation / replay variant: at most MaxIdle user steps between two commands, so that random
\* behaviours spend their length on create / reindex runs instead of on edits nobody indexes.
CONSTANT MaxIdle
VARIABLE idle
IsCmd(l) == l \in {"create", "reindex", "reindexPaths", "refusedCreate", "refusedReindex"}
BNext == Next /\ idle' = (IF IsCmd(last') THEN 0 ELSE idle + 1) /\ idle' <= MaxIdle
BSpec        == Init /\ idle = 0 /\ [][BNext]_<<vars, idle>>
BSpecIndexed == InitIndexed /\ idle = 0 /\ [][BNext]_<<vars, idle>>

\* Directed scenario for the crash enumeration (C13): on a new day one note of an indexed page is edited (it will
\* be stamped), a new note is added to a page (it will get a ZID), possibly one more edit, then the command.
ScriptNext ==
  /\ idle' = idle
  /\ CASE steps = 0 -> NextDay
        [] steps = 1 -> \E p \in Pages : EditBody(p, 1)
        [] steps = 2 -> \E p \in Pages, pos \in 0..1, kp \in Kinds : AddNote(p, pos, kp, 0, 1, 1)
        [] steps = 3 -> (\E p \in Pages : EditBody(p, 1) \/ EditBody(p, 2)) \/ (\E p \in Pages, kp \in Kinds : AddNote(p, 0, kp, 0, 1, 2))
        [] steps = 4 -> DbReindex({}) \/ DbCreate(FALSE)
        [] steps = 5 -> \E p \in Pages : EditBody(p, 1)
        [] steps = 6 -> DbReindex({})
        [] OTHER -> FALSE
\* Directed scenario for C06: a page disappears, the index follows, the page comes back unchanged (possibly on a later
\* day, possibly after an explicit-path run on another page), and the index must follow again.
Script06Next ==
  /\ idle' = idle
  /\ CASE steps = 0 -> \E p \in Pages : DelPage(p)
        [] steps = 1 -> DbReindex({}) \/ (\E q \in Pages : DbReindex({q}))
        [] steps = 2 -> NextDay \/ (\E p \in Pages : EditBody(p, 1)) \/ DbReindex({})
        [] steps = 3 -> \E p \in Pages : RestorePage(p)
        [] steps = 4 -> DbReindex({})
        [] steps = 5 -> \E p \in Pages : EditBody(p, 1)
        [] steps = 6 -> DbReindex({})
        [] OTHER -> FALSE
Script06Spec == InitIndexed /\ idle = 0 /\ [][Script06Next]_<<vars, idle>>
\* Directed scenario for C11: a note of any kind / priority is added and indexed; on the next day its text, kind or
\* priority (or that of a neighbour) is edited and the page reindexed; then again on the same day and on a third day.
AnEdit == (\E p \in Pages, i \in 1..MaxNotes, kp \in Kinds : EditKind(p, i, kp)) \/ (\E p \in Pages, i \in 1..MaxNotes : EditBody(p, i))
Script11Next ==
  /\ idle' = idle
  /\ CASE steps = 0 -> \E p \in Pages, kp \in Kinds, nl \in {1, 2} : AddNote(p, 1, kp, 0, 1, nl)
        [] steps = 1 -> DbReindex({})
        [] steps = 2 -> NextDay
        [] steps = 3 -> AnEdit
        [] steps = 4 -> DbReindex({})
        [] steps = 5 -> AnEdit
        [] steps = 6 -> DbReindex({})
        [] steps = 7 -> NextDay
        [] steps = 8 -> AnEdit \/ (\E p \in Pages, i \in 1..MaxNotes : StripMd(p, i))
        [] steps = 9 -> DbReindex({})
        [] OTHER -> FALSE
Script11Spec == InitIndexed /\ idle = 0 /\ [][Script11Next]_<<vars, idle>>
\* Second directed scenario for C11: a note moves (cut and paste) from an indexed page onto a page the index does not know, and is
\* edited there; both pages are processed by one reindex, the indexed one first.  The note keeps its ZID but gets no stamp: the
\* page it lives on now had no previous index state.  (Also the other way round and between two indexed pages.)
Script11bNext ==
  /\ idle' = idle
  /\ CASE steps = 0 -> \E p \in Pages : DelPage(p)
        [] steps = 1 -> DbReindex({})
        [] steps = 2 -> NextDay
        [] steps = 3 -> \E p \in Pages : AddPage(p)
        [] steps = 4 -> \E p, q \in Pages : MoveNote(p, 1, q)
        [] steps = 5 -> \E p \in Pages : EditBody(p, 1)
        [] steps = 6 -> DbReindex({})
        [] OTHER -> FALSE
Script11bSpec == InitIndexed /\ idle = 0 /\ [][Script11bNext]_<<vars, idle>>
\* Directed scenario for the refusal / whitelist protocol (C08): a page breaks and is whitelisted with `create -f`, another
\* page breaks (or is edited), and the next command must refuse exactly when a broken page is not whitelisted.
AnyCmd == DbCreate(FALSE) \/ DbCreateRefused \/ DbReindex({}) \/ DbReindexRefused({})
Script08Next ==
  /\ idle' = idle
  /\ CASE steps = 0 -> \E p \in Pages : BreakPage(p)
        [] steps = 1 -> DbCreate(TRUE)
        [] steps = 2 -> (\E p \in Pages : BreakPage(p)) \/ (\E p \in Pages : EditBody(p, 1))
        [] steps = 3 -> AnyCmd
        [] steps = 4 -> (\E p \in Pages : FixPage(p)) \/ (\E p \in Pages : BreakPage(p))
        [] steps = 5 -> AnyCmd
        [] OTHER -> FALSE
Script08Spec == InitIndexed /\ idle = 0 /\ [][Script08Next]_<<vars, idle>>
\* Second directed scenario for C13: a page whose index entry holds TWO notes is replaced after its FIRST note was edited - the
\* old row of the edited note is gone before the old row of the second one; a kill in between must not make the rerun forget
\* that the first note was edited (its modify date).
Script13bNext ==
  /\ idle' = idle
  /\ CASE steps = 0 -> NextDay
        [] steps = 1 -> \E p \in Pages, kp \in Kinds : AddNote(p, 1, kp, 0, 1, 1)
        [] steps = 2 -> DbReindex({})
        [] steps = 3 -> \E p \in Pages : Len(files[p].notes) >= 2 /\ EditBody(p, 1)
        [] steps = 4 -> DbReindex({})
        [] OTHER -> FALSE
Script13bSpec == InitIndexed /\ idle = 0 /\ [][Script13bNext]_<<vars, idle>>
ScriptSpec == InitIndexed /\ idle = 0 /\ [][ScriptNext]_<<vars, idle>>
=============================================================================
