---------------------------- MODULE MC_IndexSim ----------------------------
EXTENDS MC_Index
\* Simulation / replay variant: at most MaxIdle user steps between two commands, so that random
\* behaviours spend their length on create / reindex runs instead of on edits nobody indexes.
CONSTANT MaxIdle
VARIABLE idle
IsCmd(l) == l \in {"create", "reindex", "reindexPaths", "refusedCreate", "refusedReindex"}
BNext == Next /\ idle' = (IF IsCmd(last') THEN 0 ELSE idle + 1) /\ idle' <= MaxIdle
BSpec        == Init /\ idle = 0 /\ [][BNext]_<<vars, idle>>
BSpecIndexed == InitIndexed /\ idle = 0 /\ [][BNext]_<<vars, idle>>
=============================================================================
