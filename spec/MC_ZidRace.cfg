SPECIFICATION RaceSpec
CONSTANTS
  Dates = {1, 2}
  N = 51
  MaxCalls = 4
INVARIANT TypeOK
INVARIANT Monotone
INVARIANT ChainAgrees
INVARIANT WellFormed
INVARIANT ExhaustOnlyWhenFull
PROPERTY NoReuse
CHECK_DEADLOCK FALSE
