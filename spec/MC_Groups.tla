------------------------------ MODULE MC_Groups ------------------------------
(* C18 case generator: acyclic group maps over four names (g1 may refer to     *)
(* g2..g4, ...), members drawn from plain paths, date patterns and references,  *)
(* argument lists of up to three entries; `today` from the configuration.       *)
EXTENDS FileGroups, Json
CONSTANTS TY, TM, TD
VARIABLE c
Today == << TY, TM, TD >>
Lit(s) == [k |-> "lit", s |-> s]
M(parts) == [k |-> "path", parts |-> parts, isArg |-> FALSE]
R(g) == [k |-> "ref", g |-> g]
Plain1 == M(<< Lit("notes.zo") >>)
Plain2 == M(<< Lit("sub/todo.zo") >>)
Day0 == M(<< [k |-> "year", i |-> 0], Lit("/"), [k |-> "ymd", i |-> 0], Lit(".zo") >>)
Day1 == M(<< [k |-> "year", i |-> 1], Lit("/"), [k |-> "ymd", i |-> 1], Lit("_done.zo") >>)
Day6 == M(<< Lit("log_"), [k |-> "ymd", i |-> 6], Lit(".zo") >>)
Braces == M(<< Lit("plain_no_fields.zo") >>)
G4s == { << Plain1 >>, << Day0, Day6 >>, << Day1 >>, << Plain2, Day0, Plain1 >>, << >> }
G3s == { << Plain2 >>, << R("g4") >>, << Day6, R("g4"), Plain1 >>, << R("g4"), R("g4") >>, << Day1, Day0 >> }
G2s == { << Plain1, R("g3") >>, << R("g4"), R("g3") >>, << R("g3"), Day0, R("g4") >>, << Braces >>, << Day6 >> }
G1s == { << R("g2") >>, << Plain2, R("g2"), Plain1 >>, << R("g3"), R("g2"), R("g4") >>, << R("g2"), R("g2") >>, << Day0, R("g4") >>, << Day1 >> }
A(parts) == [k |-> "path", parts |-> parts, isArg |-> TRUE]
ArgAtoms == { R("g1"), R("g2"), R("g3"), R("g4"), A(<< Lit("buz.zo") >>), A(<< Lit("{yyyymmdd[0]}.zo") >>), A(<< Lit("dir/x") >>) }
ArgLists == UNION { [1..n -> ArgAtoms] : n \in 1..2 } \cup { l \in [1..3 -> ArgAtoms] : l[2].k = "ref" }
RECURSIVE SrcSeq(_)
SrcSeq(ms) == IF ms = << >> THEN << >> ELSE << IF ms[1].k = "ref" THEN "@" \o ms[1].g ELSE Src(ms[1].parts) >> \o SrcSeq(Tail(ms))
CaseOf(a, b, cc, d, l) ==
   LET G == [g1 |-> a, g2 |-> b, g3 |-> cc, g4 |-> d] IN
   [groups |-> [g1 |-> SrcSeq(a), g2 |-> SrcSeq(b), g3 |-> SrcSeq(cc), g4 |-> SrcSeq(d)], args |-> SrcSeq(l),
    exp |-> Expand(l, G, Today, 5)]
VARIABLE ab          \* the first two groups are chosen initially so that TLC's workers share the enumeration
Init == ab \in G1s \X G2s /\ c = [args |-> << >>]
Next == /\ c.args = << >> /\ UNCHANGED ab
        /\ \E cc \in G3s, d \in G4s, l \in ArgLists : c' = CaseOf(ab[1], ab[2], cc, d, l)
Spec == Init /\ [][Next]_<<c, ab>>
EmitCase == c.args = << >> \/ PrintT(ToJson(c))
\* expanding a concatenation equals concatenating the expansions (checked on the specification itself)
ASSUME Homomorphism == \A a \in G1s, d \in G4s : \A l1, l2 \in [1..1 -> ArgAtoms] :
   LET G == [g1 |-> a, g2 |-> << Plain1, R("g3") >>, g3 |-> << R("g4") >>, g4 |-> d] IN
   Expand(l1 \o l2, G, Today, 5) = Expand(l1, G, Today, 5) \o Expand(l2, G, Today, 5)
=============================================================================
