SPECIFICATION Script13bSpec
CONSTANTS
  Pages = {1, 2}
  MaxNotes = 3
  MaxDay = 3
  MaxSteps = 12
  MaxUid = 8
  MaxIdle = 2
  Kinds <- KindsSmall
  Feature <- FeatEdit
INVARIANT Agreement
INVARIANT AllZid
INVARIANT UniqueZid
INVARIANT ZidsBelowCounter
INVARIANT RebuildEquivalence
INVARIANT NoGhostPages
INVARIANT GhostAgrees
INVARIANT BrokenOnlyIfWhitelisted
PROPERTY Idempotent
PROPERTY OnlyZidInsertions
PROPERTY StampIff
PROPERTY CountersMonotone
CHECK_DEADLOCK FALSE
