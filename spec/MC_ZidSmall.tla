---------------------------- MODULE MC_ZidSmall ----------------------------
(* Every interleaving of the whole chain for a tiny alphabet: three dates,  *)
(* N = 2 (12 suffixes per date), restarts and lost allocations anywhere.    *)
EXTENDS Zid
=============================================================================
