----------------------------- MODULE MC_Template -----------------------------
(* C16 case generator: ordered pattern maps (permutations of up to three of     *)
(* four overlapping patterns) x target paths x existing / missing x overwrite    *)
(* flag x explicit template x an extra variable; the expected content after one  *)
(* and after two identical calls.                                                 *)
EXTENDS FileOps, Json
VARIABLES pm, c
\* patterns by name; the binding holds the regular expressions and template files of the same names
\* "tail" is written without a leading ^: a pattern still has to match from the START of the notes-directory-relative path
\* (re.match), so it matches 2024/20240305.zo and not arch/2024/20240305.zo
Pats == {"daily", "done", "any", "proj", "tail"}
Paths == {"2024/20240305.zo", "x_done.zo", "2024/20240306_done.zo", "proj_alpha.zo", "plain.zo", "sub/new/deep.zo", "arch/2024/20240305.zo"}
Matches(p, path) ==
  CASE p = "daily" -> path = "2024/20240305.zo"
    [] p = "done"  -> path \in {"x_done.zo", "2024/20240306_done.zo"}
    [] p = "any"   -> TRUE
    [] p = "proj"  -> path = "proj_alpha.zo"
    [] p = "tail"  -> path = "2024/20240305.zo"
    [] OTHER -> FALSE
\* renderings: the template's text with the variables captured from the path (date-like captures printed as dates).
\* Whenever the caller passes `extra` the binding also passes name=scratch and y=1999: a caller's variable never replaces a
\* captured one, so the renderings below do not mention them.
RenderWith(extra) == [p \in Pats \cup {"explicit"} |->
  [path \in Paths |->
     CASE p = "daily" -> "# Day 2024-03-05 year=2024 extra=" \o extra \o "\n#\n# ^ = [[2024/20240304]]\n\n- first " \o extra \o "\n"
       [] p = "done"  -> "# Done log extra=" \o extra \o "\n\n"
       [] p = "any"   -> "# Any page extra=" \o extra \o "\n\n- any\n"
       [] p = "proj"  -> "# Project alpha extra=" \o extra \o "\n\n- proj alpha\n"
       [] p = "tail"  -> "# Tail page extra=" \o extra \o "\n\n- tail\n"
       [] p = "explicit" -> "# Explicit extra=" \o extra \o "\n\n"]]
Maps == { << >> } \cup { << a >> : a \in Pats } \cup { << a, b >> \in Pats \X Pats : a # b }
        \cup { << a, b, d >> \in Pats \X Pats \X Pats : a # b /\ b # d /\ a # d /\ a \in {"any", "done"} }
Init == pm \in Maps /\ c = [path |-> ""]
Next == /\ c.path = "" /\ UNCHANGED pm
        /\ \E path \in Paths, old \in {"", "# Old content\n\n- keep me\n"}, ow \in BOOLEAN, ex \in {"", "explicit"}, extra \in {"", "foo"},
              noext \in BOOLEAN :          \* the page may be named without its .zo extension
             LET R(p, q) == RenderWith(extra)[p][q]
                 once  == InitResult(old, ow, pm, path, ex, Matches, R)
                 twice == InitResult(once, ow, pm, path, ex, Matches, R)
             IN c' = [path |-> path, old |-> old, overwrite |-> ow, explicit |-> ex, extra |-> extra, map |-> pm, noext |-> noext, once |-> once, twice |-> twice]
Spec == Init /\ [][Next]_<<pm, c>>
EmitCase == c.path = "" \/ PrintT(ToJson(c))
\* the laws of the property, on the specification itself
NoClobber  == c.path = "" \/ ((c.old # "" /\ ~c.overwrite) => c.once = c.old)
Idempotent == c.path = "" \/ c.twice = c.once
=============================================================================
