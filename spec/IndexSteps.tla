----------------------------- MODULE IndexSteps -----------------------------
(***************************************************************************)
(* `db reindex` and `db create` split at every external effect, in the     *)
(* order the code performs them, with Crash (the process dies between two  *)
(* effects: everything volatile is lost, the database keeps what was       *)
(* committed) and Rerun (the same command is started again).  C13:         *)
(*                                                                         *)
(*   Converges == once a run of the command completes, index and files     *)
(*   agree, every note has a ZID, and no ZID sits on two notes.            *)
(*                                                                         *)
(* Effects of one run (observed with harness/interpose.py on the code):    *)
(*   reindex: for each changed page in name order                          *)
(*              AllocZids(p)   next_ids.json rewritten once per new note    *)
(*              CommitPage(p)  old rows of p removed, new rows added        *)
(*            WriteHashes      file_hash.json                              *)
(*            WriteWhitelist, final commit (no durable change here)        *)
(*            then the events, per page: WriteZo(p, "stamp") . Rehash(p)   *)
(*                                        WriteZo(p, "zids")  . Rehash(p)  *)
(*   create : UnlinkDb . AllocZids(p)* . WriteHashes . CommitAll . events  *)
(*                                                                         *)
(* HashRule selects what WriteHashes / Rehash record:                      *)
(*   "asWas"  the order of the pinned tree: WriteHashes records every page *)
(*            (hashes taken at the start), Rehash records every page as it  *)
(*            is now.  TLC refutes Converges for it (counterexample:        *)
(*            EditBody, Start, AllocZids, CommitPage, WriteHashes, Crash,   *)
(*            Start - nothing changed - Finish).                            *)
(*   "naive"  WriteHashes skips pages with a pending write-back, Rehash     *)
(*            records the rewritten page: refuted too (crash between the    *)
(*            stamp write-back and the ZID write-back of one page).         *)
(*   "fixed"  as "naive", but Rehash records the page only once every note  *)
(*            of it has a ZID - the rule of the repaired code.              *)
(***************************************************************************)
EXTENDS Naturals, Sequences, FiniteSets, TLC
CONSTANTS Pages, MaxZid, MaxCrashes, HashRule, Cmds
VARIABLES files, db, hashes, nz,             \* durable: pages, index, hash map, ZID counter
          pc, cmd, todo, snap, mem, pend,    \* volatile: lost in a crash
          today, crashes, completed, phase
vars == << files, db, hashes, nz, pc, cmd, todo, snap, mem, pend, today, crashes, completed, phase >>

None   == 0
Absent == [ex |-> FALSE, n |-> << >>]
Pg(ns) == [ex |-> TRUE, n |-> ns]
Note(z, v, m) == [z |-> z, v |-> v, m |-> m]          \* ZID (0 = none), text version, modify stamp (0 = none)
Zids(pg) == { pg.n[i].z : i \in DOMAIN pg.n } \ {None}
Old(pg, z) == pg.n[CHOOSE i \in DOMAIN pg.n : pg.n[i].z = z]
\* the code's Note.__eq__ compares the whole body, which includes the stamp
ShouldStamp(n, old) == n.z # None /\ old.ex /\ n.z \in Zids(old)
                       /\ (Old(old, n.z).v # n.v \/ Old(old, n.z).m # n.m) /\ n.m # today
RECURSIVE Assign(_, _, _)
Assign(pg, i, c) == IF i > Len(pg.n) THEN << pg, c >>
                    ELSE IF pg.n[i].z = None THEN Assign([pg EXCEPT !.n[i].z = c + 1], i + 1, c + 1)
                    ELSE Assign(pg, i + 1, c)
Stamp(pg, old) == [pg EXCEPT !.n = [i \in DOMAIN pg.n |->
                      IF ShouldStamp(pg.n[i], old) THEN [pg.n[i] EXCEPT !.m = today] ELSE pg.n[i]]]
Min(S) == CHOOSE q \in S : \A r \in S : q <= r
AllHaveZid(pg) == None \notin { pg.n[i].z : i \in DOMAIN pg.n }

\* ---- the user's part: an indexed directory (one note with a ZID per page), then edits, then the command
Init == /\ files = [p \in Pages |-> Pg(<< Note(p, 0, None) >>)] /\ db = files /\ hashes = files
        /\ nz = Cardinality(Pages) /\ pc = "idle" /\ cmd \in Cmds /\ todo = {} /\ snap = files /\ mem = files /\ pend = << >>
        /\ today = 2 /\ crashes = 0 /\ completed = FALSE /\ phase = "user"
UserKeeps == UNCHANGED << db, hashes, nz, pc, cmd, todo, snap, mem, pend, today, crashes, completed, phase >>
EditBody(p) == phase = "user" /\ files[p].n[1].v = 0 /\ files' = [files EXCEPT ![p].n[1].v = 1] /\ UserKeeps
AddNote(p)  == phase = "user" /\ Len(files[p].n) < 2
               /\ files' = [files EXCEPT ![p].n = Append(@, Note(None, 0, None))] /\ UserKeeps

\* ---- one action per external effect
Start ==
  /\ pc = "idle" /\ ~completed /\ phase' = "cmd" /\ snap' = files
  /\ todo' = IF cmd = "create" THEN Pages ELSE { p \in Pages : hashes[p] # files[p] }
  /\ mem' = files /\ pend' = << >>
  /\ db' = IF cmd = "create" THEN [p \in Pages |-> Absent] ELSE db             \* UnlinkDb (create only)
  /\ pc' = "page" /\ UNCHANGED << files, hashes, nz, cmd, today, crashes, completed >>
AllocZids ==
  /\ pc = "page" /\ todo # {}
  /\ LET p  == Min(todo)
         st == IF cmd = "reindex" THEN Stamp(files[p], db[p]) ELSE files[p]
         as == Assign(st, 1, nz)
     IN /\ as[2] <= MaxZid
        /\ mem' = [mem EXCEPT ![p] = as[1]] /\ nz' = as[2]
        /\ pend' = pend \o (IF st # files[p] THEN << [p |-> p, what |-> "stamp"] >> ELSE << >>)
                        \o (IF as[2] # nz   THEN << [p |-> p, what |-> "zids"]  >> ELSE << >>)
  /\ pc' = "commit" /\ UNCHANGED << files, db, hashes, cmd, todo, snap, today, crashes, completed, phase >>
CommitPage ==          \* reindex commits page by page; create keeps everything in one transaction
  /\ pc = "commit"
  /\ LET p == Min(todo) IN
       /\ db' = IF cmd = "reindex" THEN [db EXCEPT ![p] = mem[p]] ELSE db
       /\ todo' = todo \ {p}
  /\ pc' = "page" /\ UNCHANGED << files, hashes, nz, cmd, snap, mem, pend, today, crashes, completed, phase >>
HasPending(p, q) == \E i \in DOMAIN q : q[i].p = p
WriteHashes ==
  /\ pc = "page" /\ todo = {}
  /\ hashes' = [p \in Pages |-> IF HashRule # "asWas" /\ HasPending(p, pend) THEN Absent ELSE snap[p]]
  /\ pc' = "commitAll" /\ UNCHANGED << files, db, nz, cmd, todo, snap, mem, pend, today, crashes, completed, phase >>
CommitAll ==
  /\ pc = "commitAll"
  /\ db' = IF cmd = "create" THEN mem ELSE db
  /\ pc' = "events" /\ UNCHANGED << files, hashes, nz, cmd, todo, snap, mem, pend, today, crashes, completed, phase >>
WriteZo ==
  /\ pc = "events" /\ pend # << >>
  /\ LET e == Head(pend) IN
       files' = [files EXCEPT ![e.p].n = [i \in DOMAIN files[e.p].n |->
                    IF e.what = "stamp" THEN [files[e.p].n[i] EXCEPT !.m = mem[e.p].n[i].m]
                    ELSE [files[e.p].n[i] EXCEPT !.z = mem[e.p].n[i].z]]]
  /\ pc' = "rehash" /\ UNCHANGED << db, hashes, nz, cmd, todo, snap, mem, pend, today, crashes, completed, phase >>
Rehash ==
  /\ pc = "rehash"
  /\ LET e == Head(pend) IN
       hashes' = CASE HashRule = "asWas" -> [p \in Pages |-> files[p]]
                   [] HashRule = "naive" -> [hashes EXCEPT ![e.p] = files[e.p]]
                   [] HashRule = "fixed" -> IF AllHaveZid(files[e.p]) THEN [hashes EXCEPT ![e.p] = files[e.p]] ELSE hashes
  /\ pend' = Tail(pend)
  /\ pc' = "events" /\ UNCHANGED << files, db, nz, cmd, todo, snap, mem, today, crashes, completed, phase >>
Finish ==
  /\ pc = "events" /\ pend = << >> /\ pc' = "idle" /\ completed' = TRUE
  /\ UNCHANGED << files, db, hashes, nz, cmd, todo, snap, mem, pend, today, crashes, phase >>
Crash ==
  /\ pc # "idle" /\ crashes < MaxCrashes /\ crashes' = crashes + 1 /\ pc' = "idle"
  /\ todo' = {} /\ pend' = << >> /\ UNCHANGED << snap, mem >>            \* volatile values are never read again
  /\ UNCHANGED << files, db, hashes, nz, cmd, today, completed, phase >>

Next == \/ \E p \in Pages : EditBody(p) \/ AddNote(p)
        \/ Start \/ AllocZids \/ CommitPage \/ WriteHashes \/ CommitAll \/ WriteZo \/ Rehash \/ Finish \/ Crash
Spec == Init /\ [][Next]_vars

Converges  == completed => \A p \in Pages : db[p] = files[p] /\ AllHaveZid(files[p])
NoZidTwice == \A p, q \in Pages : \A i \in DOMAIN files[p].n, j \in DOMAIN files[q].n :
                 (files[p].n[i].z # None /\ files[p].n[i].z = files[q].n[j].z) => (p = q /\ i = j)
NoTextLost == \A p \in Pages : files[p].ex /\ Len(files[p].n) >= 1
=============================================================================
