------------------------------ MODULE MC_Index ------------------------------
EXTENDS Index
KindsSmall == { <<"-", "">>, <<"o", "">>, <<"o", "P1">> }
KindsAll   == { <<"-", "">>, <<"o", "">>, <<"o", "P1">>, <<"x", "">>, <<"x", "P2">>, <<"~", "P1">> }
FeatBasic  == { "DelPage" }
FeatEdit   == { "DelPage", "EditKind", "StripMd", "Move" }
FeatAll    == { "DelPage", "EditKind", "StripMd", "Move", "Rename", "Swap", "Break", "Paths", "LongDate", "Gap", "MultiLine" }
FeatStamp  == { "StartStamped", "StripMd", "EditKind" }
FeatStampM == { "StartStamped", "StartMulti", "MultiLine", "EditKind" }
FeatBreak  == { "Break" }
FeatPaths  == { "Paths", "DelPage" }

=============================================================================
