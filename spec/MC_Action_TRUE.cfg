SPECIFICATION Spec
CONSTANT Deep = TRUE
INVARIANT EmitCase
INVARIANT LawHolds
CHECK_DEADLOCK FALSE
