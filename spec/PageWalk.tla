------------------------------ MODULE PageWalk ------------------------------
(***************************************************************************)
(* The page compiler as the state machine it is: ZorgFileCompiler is an    *)
(* ANTLR listener with six scope stores (file, h1..h4, note) of tags,      *)
(* links, properties and a date, context flags, an identifier counter, and *)
(* explicit resets in the exit callbacks.  One action = the callbacks of   *)
(* one line of the page, applied in parse-tree order.                      *)
(*                                                                         *)
(* RefinesSem (checked by TLC in the MC_* configurations): the notes the   *)
(* walk has emitted are exactly PageSem!Notes of the lines consumed.       *)
(***************************************************************************)
EXTENDS PageSem, Json, IOUtils

VARIABLES page,    \* the page consumed so far (title and head fixed at Init)
          st,      \* listener stores: [file, h1, h2, h3, h4 : Store], open : [1..4 -> BOOLEAN], blocks, inBlock
          out      \* notes emitted so far
wvars == << page, st, out >>

EmptyStore == [tags |-> {}, links |-> {}, props |-> <<>>, date |-> None]
LvlName(L) == CASE L = 1 -> "h1" [] L = 2 -> "h2" [] L = 3 -> "h3" [] L = 4 -> "h4"

---------------------------------------------------------------------------
\* callbacks on one word, by the flag context the word is met in
\*   "title": in_first_comment and in_head     "head": in_head only
\*   "h1".."h4": in_hN_header                  "cmt": no flag set       "note": in_note
\* _add_tag:  first_comment -> file; hN header -> hN; note -> note; otherwise dropped
\* _add_prop: in_head -> file;       hN header -> hN; note -> note; otherwise dropped   (skipped inside quotes)
\* enterDate: (note: only as the first identifier) ; hN header -> hN date ; first_comment -> file date
StoreAdd(s, w, takeTags, takeProps, takeDate) ==
  [ tags  |-> IF takeTags  THEN s.tags  \cup WTags(w)  ELSE s.tags,
    links |-> IF takeTags  THEN s.links \cup WLinks(w) ELSE s.links,
    props |-> IF takeProps THEN s.props \o WProps(w)   ELSE s.props,
    date  |-> IF takeDate /\ w.c = "ldate" THEN IsoL(w) ELSE s.date ]
RECURSIVE StoreAddAll(_, _, _, _, _)
StoreAddAll(s, ws, tt, tp, td) == IF ws = <<>> THEN s ELSE StoreAddAll(StoreAdd(s, Head(ws), tt, tp, td), Tail(ws), tt, tp, td)

\* number of `id` parse nodes of a word (enterId fires once for each)
Ids(w) == CASE w.c \in {"plain", "sdate", "ldate", "zid", "tag", "dtag", "link", "uprop"} -> 1
            [] w.c \in {"prop", "qprop"} -> 2
            [] w.c = "iprop" -> 2            \* key + at least one value word (more value words only add identifiers)
            [] OTHER -> 0                    \* [^l] [#g] [@r] [zid] [^X] and bare URLs contain no identifier node

\* note context: the per-item part of the listener state
NoteCtx0 == [ids |-> 0, zid |-> None, ndate |-> None, mdate |-> None, store |-> EmptyStore]
\* enterId / enterDate on the words of an item, in order
NoteWord(c, w) ==
  LET ids1 == c.ids + (IF Ids(w) > 0 THEN 1 ELSE 0)            \* the first identifier of the word is the one that is tested
      isFirst  == Ids(w) > 0 /\ ids1 = 1
      isSecond == Ids(w) > 0 /\ ids1 = 2
      c1 == IF isFirst /\ w.c = "sdate" THEN [c EXCEPT !.mdate = IsoS(w)]
            ELSE IF (isFirst \/ (isSecond /\ c.mdate # None)) /\ w.c = "zid"
                 THEN [c EXCEPT !.zid = CoreTxt(w), !.ndate = IsoS(w)]
            ELSE IF isFirst /\ w.c = "ldate" /\ c.ndate = None THEN [c EXCEPT !.ndate = IsoL(w)]
            ELSE c
  IN [c1 EXCEPT !.ids = c.ids + Ids(w),
                !.store = StoreAdd(c1.store, w, TRUE, w.c # "qprop", FALSE)]
RECURSIVE NoteWords(_, _)
NoteWords(c, ws) == IF ws = <<>> THEN c ELSE NoteWords(NoteWord(c, Head(ws)), Tail(ws))

\* what the state's getters compute when a note is emitted
Scopes(s) == << s.file, s.h1, s.h2, s.h3, s.h4 >>
CurTags(s, own)  == s.file.tags \cup s.h1.tags \cup s.h2.tags \cup s.h3.tags \cup s.h4.tags \cup own.tags
CurLinks(s, own) == s.file.links \cup s.h1.links \cup s.h2.links \cup s.h3.links \cup s.h4.links \cup own.links
CurProps(s, own) == PropMap(s.file.props \o s.h1.props \o s.h2.props \o s.h3.props \o s.h4.props \o own.props)
CurDate(s, c, today) == First(<< c.ndate, s.h4.date, s.h3.date, s.h2.date, s.h1.date, s.file.date, today >>)

---------------------------------------------------------------------------
\* one line of the body
\* exitH(L)_section fires, deepest first, for every open section of level >= l when a level-l header starts
CloseFrom(s, l) ==
  [s EXCEPT !.h1 = IF l <= 1 THEN EmptyStore ELSE @, !.h2 = IF l <= 2 THEN EmptyStore ELSE @,
            !.h3 = IF l <= 3 THEN EmptyStore ELSE @, !.h4 = IF l <= 4 THEN EmptyStore ELSE @,
            !.open = [L \in 1..4 |-> IF L >= l THEN FALSE ELSE @[L]]]
WalkSec(s, ln) ==
  LET s1 == CloseFrom(s, ln.lvl)
      hs == StoreAddAll(EmptyStore, ln.w, TRUE, TRUE, TRUE)
  IN [s1 EXCEPT ![LvlName(ln.lvl)] = hs, !.open[ln.lvl] = TRUE, !.inBlock = FALSE]

WalkItem(s, ln, lineNo, secPath, today) ==
  LET c0  == NoteWords(NoteCtx0, ln.w \o ContWords(ln.cont))
      own == [c0.store EXCEPT !.props = @ \o BulletProps(ln.cont)]        \* bullet scan in _add_note, after the walk
      cd  == CurDate(s, c0, today)
  IN [ line  |-> lineNo, kind |-> ln.kind,
       prio  |-> IF ln.kind = "-" THEN None ELSE IF ln.prio = None THEN "P3" ELSE ln.prio,
       zid   |-> c0.zid, cdate |-> cd,
       mdate |-> IF c0.mdate # None THEN c0.mdate ELSE cd,
       body  |-> Body(ln),
       tags  |-> CurTags(s, own), links |-> CurLinks(s, own), props |-> CurProps(s, own),
       sec   |-> secPath,
       blk   |-> s.blocks + (IF s.inBlock THEN 0 ELSE 1) ]

\* enterBlock: a new block starts at an item / comment that does not continue one
BlockStep(s, ln) == IF ln.k \in {"item", "cmt"}
                    THEN [s EXCEPT !.blocks = @ + (IF s.inBlock THEN 0 ELSE 1), !.inBlock = TRUE]
                    ELSE [s EXCEPT !.inBlock = FALSE]

Consume(ln, today) ==
  /\ page' = [page EXCEPT !.body = Append(@, ln)]
  /\ CASE ln.k = "blank" -> st' = BlockStep(st, ln) /\ out' = out
       [] ln.k = "cmt"   -> st' = BlockStep(st, ln) /\ out' = out          \* no flag is set: every callback drops its data
       [] ln.k = "sec"   -> st' = WalkSec(st, ln) /\ out' = out
       [] ln.k = "item"  -> /\ st' = BlockStep(st, ln)
                            /\ out' = Append(out, WalkItem(st, ln, LineNo(page', Len(page'.body)),
                                                           SecPath(page'.body, Len(page'.body)), today))

\* header comments: the first line feeds tags, links, date and properties; later lines properties only
InitWith(title, head) ==
  /\ page = [title |-> title, head |-> head, body |-> <<>>]
  /\ LET f0 == StoreAddAll(EmptyStore, title, TRUE, TRUE, TRUE)
         RECURSIVE HeadFold(_, _)
         HeadFold(s, hs) == IF hs = <<>> THEN s ELSE HeadFold(StoreAddAll(s, Head(hs), FALSE, TRUE, FALSE), Tail(hs))
     IN st = [file |-> HeadFold(f0, head), h1 |-> EmptyStore, h2 |-> EmptyStore, h3 |-> EmptyStore, h4 |-> EmptyStore,
              open |-> [L \in 1..4 |-> FALSE], blocks |-> 0, inBlock |-> FALSE]
  /\ out = <<>>

\* the listener's own view of which header may come next (s.h2 / s.h3 must be set)
CanOpen(l) == l \in {1, 2} \/ (l = 3 /\ st.open[2]) \/ (l = 4 /\ st.open[3])

---------------------------------------------------------------------------
\* Scope of the refinement (the don't-care zone made explicit): a date or ZID look-alike is never
\* preceded, inside its item, by a word without an identifier node, and a lone short date is
\* followed by something on the same line
RECURSIVE ZeroIdBeforeLookalike(_, _)
ZeroIdBeforeLookalike(ws, sawZero) ==
  IF ws = <<>> THEN FALSE
  ELSE IF Head(ws).c \in {"sdate", "ldate", "zid"} /\ sawZero THEN TRUE
  ELSE ZeroIdBeforeLookalike(Tail(ws), sawZero \/ Ids(Head(ws)) = 0)
PrioSpellings == {"P0", "P1", "P2", "P3", "P4", "P5", "P6", "P7", "P8", "P9"}
ItemInScope(ln) == /\ ~ZeroIdBeforeLookalike(ln.w \o ContWords(ln.cont), FALSE)
                   /\ ~(Len(ln.w) = 1 /\ ln.w[1].c = "sdate" /\ ln.cont # <<>>)
                   \* `o P5 text` IS a todo with priority P5: a todo written without priority cannot start with that word
                   /\ ~(ln.kind # "-" /\ ln.prio = None /\ ln.w[1].txt \in PrioSpellings)

\* with ZV_EMIT=1 every distinct page reached is written out (one JSON object per line) for the replay
EmitPage == ("ZV_EMIT" \in DOMAIN IOEnv /\ IOEnv.ZV_EMIT = "1") => PrintT(ToJson([page |-> page]))

RefinesSem(today) == out = Notes(page, today)
NonItemsNeverNotes == Len(out) = Cardinality({ i \in DOMAIN page.body : IsItem(page.body[i]) })
LinesIncrease == \A i \in 1..(Len(out)-1) : out[i].line < out[i+1].line
=============================================================================
