------------------------------ MODULE MC_Dates ------------------------------
EXTENDS Dates, TLC
VARIABLE x
Days == { <<y, m, d>> \in (1999..2032) \X (1..12) \X (1..31) : Valid(<<y, m, d>>) }
Init == x \in {1999, 2000, 2004, 2023, 2024, 2025, 2031, 2032}
Next == UNCHANGED x
Spec == Init /\ [][Next]_x
YearDays == { dt \in Days : dt[1] = x }
RoundTrip == \A dt \in YearDays : FromOrd(Ord(dt)) = dt
Successor == \A dt \in YearDays :
               AddDays(dt, 1) = (IF dt[3] < DaysInMonth(dt[1], dt[2]) THEN <<dt[1], dt[2], dt[3] + 1>>
                                 ELSE IF dt[2] < 12 THEN <<dt[1], dt[2] + 1, 1>> ELSE <<dt[1] + 1, 1, 1>>)
MonthsValid == \A dt \in YearDays : \A n \in {-13, -12, -1, 0, 1, 2, 11, 12, 25} :
                 Valid(AddMonths(dt, n)) /\ AddMonths(dt, n)[3] <= dt[3]
                 /\ (AddMonths(dt, n)[1] * 12 + AddMonths(dt, n)[2]) - (dt[1] * 12 + dt[2]) = n
=============================================================================
