SPECIFICATION Spec
INVARIANT RoundTrip
INVARIANT Successor
INVARIANT MonthsValid
CHECK_DEADLOCK FALSE
