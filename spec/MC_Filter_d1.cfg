SPECIFICATION Spec
CONSTANT Depth = 1
INVARIANT EmitCase
INVARIANT Complement
CHECK_DEADLOCK FALSE
