----------------------------- MODULE MC_PageItem -----------------------------
(* C01 / C12 design check: every single-item shape.  Kind x priority x        *)
(* id-prefix (none, ZID, modify date + ZID, lone modify date, long date) x     *)
(* every word class at body positions 1 and 2 (including everything that       *)
(* merely looks like a prefix) x continuation (none, text line, property       *)
(* bullet).  One page per shape: title, blank line, the item.                  *)
EXTENDS PageWalk
Today == "2024-06-01"
SD  == SDate("24", "02", "03")
Z2  == ZidW("24", "01", "03", "zz")
Z3  == ZidW("24", "01", "04", "0A1")
LD  == LDate("2024", "01", "05")
Prefixes == { <<>>, <<Z2>>, <<Z3>>, <<SD, Z2>>, <<SD, Z3>>, <<SD>>, <<LD>> }
Alpha == { Plain("foo"), Plain("o"), Plain("x"), Plain("P5"), Plain("1230"),
           SDate("24", "03", "04"), LDate("2024", "03", "05"), ZidW("24", "03", "06", "0B"), ZidW("24", "03", "07", "0C1"),
           Tag("projects", "pj1"), Tag("areas", "ar1"), DTag("contexts", "123"), Link("pg1"), Link("pg1#anc"),
           Prop("k", "v"), UProp("u", "http://a.b/c"), IProp("k2", "v w"), QProp("qk", "qv"),
           Url("https://ex.com/a-b"), LLink("lid"), GLink("gid"), RLink("rid"), ZLink("240102#zz"), XLocal,
           Wrap("(", Tag("people", "pe1"), ")"), Wrap("", Plain("end"), ".") }
NoWord == [c |-> "none"]
Kinds == { <<"-", None>>, <<"o", None>>, <<"o", "P0">>, <<"x", "P9">>, <<"~", None>>, <<"<", "P1">>, <<">", None>> }
Conts == { <<>>,
           << [k |-> "text", ind |-> 2, trail |-> 2, w |-> <<Plain("spaced"), Plain("line")>>],
              [k |-> "ws", ind |-> 3, w |-> <<>>],
              [k |-> "bullet", ind |-> 2, mark |-> "*", w |-> <<Plain("after"), Plain("blank")>>] >>,
           << [k |-> "text", ind |-> 2, w |-> <<Plain("more"), Tag("contexts", "cx2"), Plain("text")>>] >>,
           << [k |-> "pbullet", ind |-> 2, mark |-> "*", key |-> "bk", w |-> <<Plain("bv"), Plain("bw")>>],
              [k |-> "bullet",  ind |-> 2, mark |-> "*", w |-> <<Plain("plain"), Plain("bullet")>>] >> }

ItemOf(kp, pre, w1, w2, cont) ==
  [k |-> "item", kind |-> kp[1], prio |-> kp[2], gap |-> 1, cont |-> cont,
   w |-> pre \o <<w1>> \o (IF w2.c = "none" THEN <<>> ELSE <<w2>>)]

VARIABLE sel      \* <<kind/priority, id-prefix>> chosen initially (spreads the enumeration over TLC's workers)
ItInit == InitWith(<<Plain("T")>>, <<>>) /\ sel \in Kinds \X Prefixes
AddIt == /\ page.body = <<>> /\ UNCHANGED sel
         /\ \E w1 \in Alpha, w2 \in Alpha \cup {NoWord}, cont \in Conts :
              /\ ItemInScope(ItemOf(sel[1], sel[2], w1, w2, cont))
              /\ Consume(ItemOf(sel[1], sel[2], w1, w2, cont), Today)
ItSpec == ItInit /\ [][AddIt]_<<wvars, sel>>

Refines == RefinesSem(Today)
\* C01, stated directly: kind and priority come from the prefix only, identity from the id-prefix only
PrefixLookalikesInert ==
  \A n \in DOMAIN out : LET it == page.body[1] IN
     /\ out[n].kind = it.kind
     /\ out[n].prio = (IF it.kind = "-" THEN None ELSE IF it.prio = None THEN "P3" ELSE it.prio)
     /\ (out[n].zid # None) =>
           \/ (it.w[1].c = "zid" /\ out[n].zid = CoreTxt(it.w[1]))
           \/ (it.w[1].c = "sdate" /\ Len(it.w) > 1 /\ it.w[2].c = "zid" /\ out[n].zid = CoreTxt(it.w[2]))
     /\ (out[n].mdate # out[n].cdate) => it.w[1].c = "sdate"
\* C12: the text form of the emitted note, put under a title, reads back as the same note
RoundTrip ==
  \A n \in DOMAIN out :
     LET o  == out[n]
         it == page.body[1]
         back == [it EXCEPT !.kind = o.kind, !.prio = IF o.kind \in {"o", "<", ">"} THEN o.prio ELSE None]
         p2 == [title |-> <<Plain("T")>>, head |-> <<>>, body |-> <<back>>]
         r  == NoteOf(p2, 1, Today)
     IN /\ RenderNote(o) = o.kind \o (IF o.kind \in {"o","<",">"} THEN " " \o o.prio ELSE "") \o " " \o Body(it)
        /\ r.kind = o.kind /\ r.zid = o.zid /\ r.body = o.body
        /\ r.tags = o.tags /\ r.links = o.links /\ r.props = o.props
        /\ (o.zid # None => (r.cdate = o.cdate /\ r.mdate = o.mdate))
        /\ (o.kind \in {"o", "<", ">"} => r.prio = o.prio)
=============================================================================
