------------------------------- MODULE Index -------------------------------
(***************************************************************************)
(* The notes directory and its index as one system (C05, C06, C11, C08b).  *)
(*                                                                         *)
(* Durable state: the pages (files), the index (db), the hash map          *)
(* (file_hash.json), the ZID counters (next_ids.json), the whitelist of    *)
(* broken pages, and the calendar day.  The user edits pages; `db create`  *)
(* and `db reindex` are atomic commands here (IndexSteps.tla splits them   *)
(* at every external effect).  This is the REFERENCE behaviour: what the   *)
(* commands must do for the listed properties to hold, shaped like the     *)
(* code (pages in name order, notes in file order, ZIDs from per-date      *)
(* counters, stamps decided against the previous index state of the page). *)
(*                                                                         *)
(* A note in a file:  [uid, zid, ver, kind, prio, md, ld, gap, nl]          *)
(*   uid  ghost identity given by the user action that wrote the note      *)
(*   zid  NoZid or <<day, n>>  (the n-th ZID allocated for that day)       *)
(*   ver  version of the text (first line and continuation lines)          *)
(*   md   modify-date stamp written in front of the ZID (0 = none)         *)
(*   ld   YYYY-MM-DD create date written first (0 = none; only without ZID)*)
(*   gap  spaces after the kind/priority prefix;  nl  number of lines      *)
(* The index stores per note what compiling the file yields (IdxNote).     *)
(***************************************************************************)
EXTENDS Naturals, Sequences, FiniteSets, TLC

CONSTANTS Pages,        \* page names, a set of naturals in `name order' (the order zorg processes them in)
          MaxNotes, MaxDay, MaxSteps, MaxUid,
          Kinds,        \* kind/priority pairs a note may have, e.g. {<<"-", "">>, <<"o", "">>, <<"o", "P1">>, <<"x", "">>}
          Feature       \* set of optional user actions enabled in this configuration

NoZid  == << >>
Absent == [ex |-> FALSE, broken |-> FALSE, notes |-> << >>]

VARIABLES files,    \* [Pages -> page]       page = [ex, broken, notes : Seq(note)]
          db,       \* [Pages -> idx page]   [ex, broken, notes : Seq(IdxNote)]
          hashes,   \* [Pages -> page or NoHash]   content the hash map vouches for
          nextId,   \* [1..MaxDay -> Nat]    per-date ZID counter (next_ids.json)
          wl,       \* SUBSET Pages          error-file whitelist
          today,    \* 1..MaxDay
          nuid,     \* ghost: uids handed out
          snap,     \* ghost: [uid -> text/kind/prio the note had when its page was last indexed] (or NoSnap)
          steps, last,
          lastArg,  \* paths argument of the last reindex ({} = plain)
          trash     \* ghost: [Pages -> the content a page had when the user last deleted it] (restored by RestorePage)
vars == << files, db, hashes, nextId, wl, today, nuid, snap, steps, last, lastArg, trash >>

\* (a pseudo-note of the shape of a real one: TLC's simulator compares whole states and refuses to compare a record with a tuple)
NoHash == [ex |-> FALSE, broken |-> FALSE,
           notes |-> << [uid |-> 0, zid |-> << >>, ver |-> 0, kind |-> "nohash", prio |-> "", md |-> 0, ld |-> 0, gap |-> 1, nl |-> 1] >>]
NoSnap == << >>

---------------------------------------------------------------------------
\* Compiling a page (PageSem restricted to the fields of this abstraction)
CDate(n, day) == IF n.zid # NoZid THEN n.zid[1] ELSE IF n.ld # 0 THEN n.ld ELSE day
IdxNote(n, i, day) ==
  [ zid  |-> n.zid,
    body |-> << n.md, n.zid, n.ld, n.ver, n.nl >>,       \* the words of the body: stamp, ZID, long date, text, lines
    kind |-> n.kind, prio |-> (IF n.kind # "-" /\ n.prio = "" THEN "P3" ELSE n.prio),     \* default priority
    cd   |-> CDate(n, day),
    md   |-> IF n.md # 0 THEN n.md ELSE CDate(n, day),
    pos  |-> i ]                                           \* stands for the line number
Compile(pg, day) ==
  IF ~pg.ex THEN Absent
  ELSE IF pg.broken THEN [ex |-> TRUE, broken |-> TRUE, notes |-> << >>]
  ELSE [ex |-> TRUE, broken |-> FALSE, notes |-> [i \in DOMAIN pg.notes |-> IdxNote(pg.notes[i], i, day)]]

Exists(p) == files[p].ex
ZidsOfFile(pg) == { pg.notes[i].zid : i \in DOMAIN pg.notes } \ {NoZid}
ZidsOfIdx(ip)  == { ip.notes[i].zid : i \in DOMAIN ip.notes } \ {NoZid}
OldNote(ip, z) == ip.notes[CHOOSE i \in DOMAIN ip.notes : ip.notes[i].zid = z]

\* the code's Note.__eq__: body and todo payload
Differs(n, i, old, day) == LET c == IdxNote(n, i, day) IN c.body # old.body \/ c.kind # old.kind \/ c.prio # old.prio
EffMd(n, day) == IF n.md # 0 THEN n.md ELSE CDate(n, day)
ShouldStamp(n, i, oldPage) ==
  /\ n.zid # NoZid /\ oldPage.ex /\ n.zid \in ZidsOfIdx(oldPage)
  /\ Differs(n, i, OldNote(oldPage, n.zid), today)
  /\ EffMd(n, today) # today

\* stamp the edited notes of a page, then give ZIDs to the notes without one (left to right, per-date counters)
Stamp(pg, oldPage) ==
  [pg EXCEPT !.notes = [i \in DOMAIN pg.notes |->
      IF ShouldStamp(pg.notes[i], i, oldPage) THEN [pg.notes[i] EXCEPT !.md = today] ELSE pg.notes[i]]]
RECURSIVE Assign(_, _, _)
Assign(pg, i, ctr) ==          \* -> << page, counters >>
  IF i > Len(pg.notes) THEN << pg, ctr >>
  ELSE IF pg.notes[i].zid = NoZid
       THEN LET d == CDate(pg.notes[i], today)
            IN Assign([pg EXCEPT !.notes[i].zid = << d, ctr[d] >>, !.notes[i].ld = 0], i + 1, [ctr EXCEPT ![d] = @ + 1])
       ELSE Assign(pg, i + 1, ctr)

Min(S) == CHOOSE q \in S : \A r \in S : q <= r
\* process the pages of S in name order, threading the counters: -> << files, counters >>
RECURSIVE Process(_, _, _, _)
Process(S, f, ctr, stamp) ==
  IF S = {} THEN << f, ctr >>
  ELSE LET p  == Min(S)
           st == IF stamp /\ ~f[p].broken THEN Stamp(f[p], db[p]) ELSE f[p]
           as == IF f[p].broken THEN << f[p], ctr >> ELSE Assign(st, 1, ctr)
       IN Process(S \ {p}, [f EXCEPT ![p] = as[1]], as[2], stamp)

CtrOK(ctr) == \A d \in DOMAIN ctr : ctr[d] <= MaxNotes * Cardinality(Pages) + 3      \* model bound only

TextOf(n) == << n.md, n.zid, n.ld, n.ver, n.nl, n.kind, n.prio >>
SnapOf(pg) == [u \in { pg.notes[i].uid : i \in DOMAIN pg.notes } |->
                 LET n == pg.notes[CHOOSE i \in DOMAIN pg.notes : pg.notes[i].uid = u]
                 IN << n.md, n.zid, n.ld, n.ver, n.nl, n.kind, n.prio >>]
SnapAfter(S, f) == [u \in 1..MaxUid |->
                      IF \E p \in S : f[p].ex /\ ~f[p].broken /\ u \in DOMAIN SnapOf(f[p])
                      THEN SnapOf(f[CHOOSE p \in S : f[p].ex /\ ~f[p].broken /\ u \in DOMAIN SnapOf(f[p])])[u]
                      ELSE snap[u]]

---------------------------------------------------------------------------
\* a directory that is already indexed: every page holds one note with a ZID of day 1
Note0(p) == [uid |-> p, zid |-> << 1, p - 1 >>, ver |-> 0, kind |-> "-", prio |-> "",
             md |-> (IF "StartStamped" \in Feature THEN 1 ELSE 0), ld |-> 0, gap |-> 1,
             nl |-> (IF "StartMulti" \in Feature THEN 2 ELSE 1)]
Page0(p) == [ex |-> TRUE, broken |-> FALSE, notes |-> << Note0(p) >>]
InitIndexed ==
        /\ files = [p \in Pages |-> Page0(p)] /\ db = [p \in Pages |-> Compile(Page0(p), 1)]
        /\ hashes = files /\ nextId = [d \in 1..MaxDay |-> IF d = 1 THEN Cardinality(Pages) ELSE 0]
        /\ wl = {} /\ today = 1 /\ nuid = Cardinality(Pages)
        /\ snap = [u \in 1..MaxUid |-> IF u \in Pages THEN TextOf(Note0(u)) ELSE NoSnap]
        /\ steps = 0 /\ last = "create" /\ lastArg = {} /\ trash = [p \in Pages |-> Absent]

Init == /\ files = [p \in Pages |-> Absent] /\ db = [p \in Pages |-> Absent]
        /\ hashes = [p \in Pages |-> NoHash] /\ nextId = [d \in 1..MaxDay |-> 0]
        /\ wl = {} /\ today = 1 /\ nuid = 0 /\ snap = [u \in 1..MaxUid |-> NoSnap]
        /\ steps = 0 /\ last = "init" /\ lastArg = {} /\ trash = [p \in Pages |-> Absent]

Has(f) == f \in Feature
Tick == steps < MaxSteps /\ steps' = steps + 1
UserT(a, t) == Tick /\ last' = a /\ trash' = t /\ UNCHANGED << db, hashes, nextId, wl, snap, lastArg >>
User(a) == UserT(a, trash)
SameDay == today' = today

\* ----- the user's edits (the alphabet of C06 / C11 histories)
AddPage(p)  == ~Exists(p) /\ files' = [files EXCEPT ![p] = [ex |-> TRUE, broken |-> FALSE, notes |-> << >>]]
               /\ SameDay /\ UNCHANGED nuid /\ User("AddPage")
DelPage(p)  == Has("DelPage") /\ Exists(p) /\ files' = [files EXCEPT ![p] = Absent] /\ SameDay /\ UNCHANGED nuid
               /\ UserT("DelPage", [trash EXCEPT ![p] = files[p]])
\* the page comes back exactly as it was (moved back, restored from a backup)
\* (the user restores a backup only if its notes do not live elsewhere by now - e.g. under the name the page was renamed to -
\* otherwise the user, not zorg, would have made two notes with one ZID)
ZidsIn(pg) == { pg.notes[i].zid : i \in DOMAIN pg.notes } \ { << >> }
RestorePage(p) == Has("DelPage") /\ ~Exists(p) /\ trash[p].ex /\ files' = [files EXCEPT ![p] = trash[p]]
                  /\ (\A q \in Pages : Exists(q) => ZidsIn(files[q]) \cap ZidsIn(trash[p]) = {})
                  /\ SameDay /\ UNCHANGED nuid /\ User("RestorePage")
RenamePage(p, q) == Has("Rename") /\ Exists(p) /\ ~Exists(q) /\ files' = [files EXCEPT ![q] = files[p], ![p] = Absent]
                    /\ SameDay /\ UNCHANGED nuid /\ User("RenamePage")
NewNote(kp, ld, gap, nl) ==
  [uid |-> nuid + 1, zid |-> NoZid, ver |-> 0, kind |-> kp[1], prio |-> kp[2], md |-> 0, ld |-> ld, gap |-> gap, nl |-> nl]
AddNote(p, pos, kp, ld, gap, nl) ==
  /\ Exists(p) /\ ~files[p].broken /\ Len(files[p].notes) < MaxNotes /\ nuid < MaxUid /\ pos \in 0..Len(files[p].notes)
  /\ files' = [files EXCEPT ![p].notes = SubSeq(@, 1, pos) \o << NewNote(kp, ld, gap, nl) >> \o SubSeq(@, pos + 1, Len(@))]
  /\ nuid' = nuid + 1 /\ SameDay /\ User("AddNote")
OnNote(p, i) == Exists(p) /\ ~files[p].broken /\ i \in DOMAIN files[p].notes
EditBody(p, i) == OnNote(p, i) /\ files' = [files EXCEPT ![p].notes[i].ver = 1 - @]
                  /\ SameDay /\ UNCHANGED nuid /\ User("EditBody")
EditKind(p, i, kp) == /\ Has("EditKind") /\ OnNote(p, i) /\ << files[p].notes[i].kind, files[p].notes[i].prio >> # kp
                      /\ (files[p].notes[i].kind = "-") = (kp[1] = "-")            \* a todo stays a todo
                      /\ files' = [files EXCEPT ![p].notes[i].kind = kp[1], ![p].notes[i].prio = kp[2]]
                      /\ SameDay /\ UNCHANGED nuid /\ User("EditKind")
DelNote(p, i) == OnNote(p, i) /\ files' = [files EXCEPT ![p].notes = SubSeq(@, 1, i-1) \o SubSeq(@, i+1, Len(@))]
                 /\ SameDay /\ UNCHANGED nuid /\ User("DelNote")
MoveNote(p, i, q) == /\ Has("Move") /\ OnNote(p, i) /\ p # q /\ Exists(q) /\ ~files[q].broken /\ Len(files[q].notes) < MaxNotes
                     /\ files' = [files EXCEPT ![p].notes = SubSeq(@, 1, i-1) \o SubSeq(@, i+1, Len(@)),
                                               ![q].notes = Append(@, files[p].notes[i])]
                     /\ SameDay /\ UNCHANGED nuid /\ User("MoveNote")
SwapNotes(p, i) == /\ Has("Swap") /\ OnNote(p, i) /\ OnNote(p, i + 1)
                   /\ files' = [files EXCEPT ![p].notes = [@ EXCEPT ![i] = files[p].notes[i+1], ![i+1] = files[p].notes[i]]]
                   /\ SameDay /\ UNCHANGED nuid /\ User("SwapNotes")
StripMd(p, i) == Has("StripMd") /\ OnNote(p, i) /\ files[p].notes[i].md # 0 /\ files' = [files EXCEPT ![p].notes[i].md = 0]
                 /\ SameDay /\ UNCHANGED nuid /\ User("StripMd")
BreakPage(p) == Has("Break") /\ Exists(p) /\ ~files[p].broken /\ files[p].notes # << >>
                /\ files' = [files EXCEPT ![p].broken = TRUE] /\ SameDay /\ UNCHANGED nuid /\ User("BreakPage")
FixPage(p)   == Has("Break") /\ Exists(p) /\ files[p].broken /\ files' = [files EXCEPT ![p].broken = FALSE]
                /\ SameDay /\ UNCHANGED nuid /\ User("FixPage")
NextDay == today < MaxDay /\ today' = today + 1 /\ UNCHANGED << files, nuid >> /\ User("NextDay")

\* ----- db create
Existing == { p \in Pages : Exists(p) }
BadFor(S, force) == { p \in S : files[p].broken /\ p \notin wl /\ ~force }
DbCreate(force) ==
  /\ Tick /\ BadFor(Existing, force) = {} /\ (force => Has("Break"))
  /\ LET r == Process(Existing, files, nextId, FALSE) IN
       /\ CtrOK(r[2])
       /\ files'  = r[1] /\ nextId' = r[2]
       /\ db'     = [p \in Pages |-> Compile(r[1][p], today)]
       /\ hashes' = [p \in Pages |-> IF Exists(p) THEN r[1][p] ELSE NoHash]
       /\ wl'     = { p \in Existing : files[p].broken }
       /\ snap'   = SnapAfter(Existing, r[1])
  /\ SameDay /\ UNCHANGED << nuid, trash >> /\ last' = "create" /\ lastArg' = (IF force THEN {0} ELSE {})
\* refused: the old index is gone, ZIDs of the pages walked before the offending one are burnt, nothing else changes
Before(S, bad) == { p \in S : \A b \in bad : p < b }
DbCreateRefused ==
  /\ Tick /\ BadFor(Existing, FALSE) # {}
  /\ LET r == Process(Before(Existing, BadFor(Existing, FALSE)), files, nextId, FALSE) IN CtrOK(r[2]) /\ nextId' = r[2]
  /\ db' = [p \in Pages |-> Absent]
  /\ hashes' = [p \in Pages |-> NoHash]          \* nothing is indexed any more, so nothing is vouched for
  /\ SameDay /\ UNCHANGED << files, wl, nuid, snap, trash >> /\ last' = "refusedCreate" /\ lastArg' = {}

\* ----- db reindex (paths = {} : every page whose content differs from what the hash map vouches for)
Changed(paths) == { p \in (IF paths = {} THEN Existing ELSE paths \cap Existing) : hashes[p] # files[p] }
Gone == { p \in Pages : ~Exists(p) /\ db[p].ex }
DbReindex(paths) ==
  /\ Tick /\ BadFor(Changed(paths), FALSE) = {} /\ (paths # {} => Has("Paths"))
  /\ paths \subseteq Existing                           \* explicit paths name existing files
  /\ LET S == Changed(paths)
         r == Process(S, files, nextId, TRUE) IN
       /\ CtrOK(r[2])
       /\ files'  = r[1] /\ nextId' = r[2]
       /\ db'     = [p \in Pages |-> IF p \in S THEN Compile(r[1][p], today)
                                     ELSE IF paths = {} /\ p \in Gone THEN Absent ELSE db[p]]
       \* the hash map vouches for exactly the pages that were processed (and keeps vouching for the others)
       /\ hashes' = [p \in Pages |-> IF ~Exists(p) THEN NoHash ELSE IF p \in S THEN r[1][p] ELSE hashes[p]]
       /\ wl'     = wl \ { p \in S : ~files[p].broken }
       /\ snap'   = SnapAfter(S, r[1])
  /\ SameDay /\ UNCHANGED << nuid, trash >> /\ last' = (IF paths = {} THEN "reindex" ELSE "reindexPaths") /\ lastArg' = paths
DbReindexRefused(paths) ==
  /\ Tick /\ BadFor(Changed(paths), FALSE) # {} /\ (paths # {} => Has("Paths")) /\ paths \subseteq Existing
  /\ LET S == Before(Changed(paths), BadFor(Changed(paths), FALSE))
         r == Process(S, files, nextId, TRUE) IN
       /\ CtrOK(r[2]) /\ nextId' = r[2]
       /\ db' = [p \in Pages |-> IF p \in S THEN Compile(r[1][p], today) ELSE db[p]]     \* committed page by page
  /\ SameDay /\ UNCHANGED << files, hashes, wl, nuid, snap, trash >> /\ last' = "refusedReindex" /\ lastArg' = paths

Next ==
  \/ \E p \in Pages : AddPage(p) \/ DelPage(p) \/ RestorePage(p) \/ BreakPage(p) \/ FixPage(p)
  \/ \E p, q \in Pages : RenamePage(p, q)
  \/ \E p \in Pages, pos \in 0..MaxNotes, kp \in Kinds, ld \in (IF Has("LongDate") THEN 0..1 ELSE {0}),
        gap \in (IF Has("Gap") THEN {1, 3} ELSE {1}), nl \in (IF Has("MultiLine") THEN {1, 2} ELSE {1}) :
        AddNote(p, pos, kp, ld, gap, nl)
  \/ \E p \in Pages, i \in 1..MaxNotes : EditBody(p, i) \/ DelNote(p, i) \/ SwapNotes(p, i) \/ StripMd(p, i)
  \/ \E p \in Pages, i \in 1..MaxNotes, kp \in Kinds : EditKind(p, i, kp)
  \/ \E p, q \in Pages, i \in 1..MaxNotes : MoveNote(p, i, q)
  \/ NextDay
  \/ \E force \in BOOLEAN : DbCreate(force)
  \/ DbCreateRefused
  \/ DbReindex({}) \/ DbReindexRefused({})
  \/ \E p \in Pages : DbReindex({p}) \/ DbReindexRefused({p})
Spec == Init /\ [][Next]_vars
SpecIndexed == InitIndexed /\ [][Next]_vars

---------------------------------------------------------------------------
\* Properties
AfterCmd   == last \in {"create", "reindex"}
\* C05: index and files agree, every note has a ZID
Agreement  == AfterCmd => \A p \in Pages : db[p] = Compile(files[p], today)
AllZid     == AfterCmd => \A p \in Pages : (Exists(p) /\ ~files[p].broken) => NoZid \notin { files[p].notes[i].zid : i \in DOMAIN files[p].notes }
\* no ZID on two notes (allocated ZIDs are fresh; the user never invents one)
UniqueZid  == \A p, q \in Pages : \A i \in DOMAIN files[p].notes, j \in DOMAIN files[q].notes :
                 (files[p].notes[i].zid # NoZid /\ files[p].notes[i].zid = files[q].notes[j].zid) => (p = q /\ i = j)
ZidsBelowCounter == \A p \in Pages : \A i \in DOMAIN files[p].notes :
                       files[p].notes[i].zid # NoZid => files[p].notes[i].zid[2] < nextId[files[p].notes[i].zid[1]]
\* C05: a second run changes nothing
Idempotent == [][ (AfterCmd /\ last' \in {"create", "reindex"}) => (files' = files /\ db' = db) ]_vars
\* C05: create changes a file only by giving ZIDs (in place of a long date) to notes that had none
OnlyZidInsertions ==
  [][ last' \in {"create"} =>
        \A p \in Pages : /\ files'[p].ex = files[p].ex /\ files'[p].broken = files[p].broken
                         /\ Len(files'[p].notes) = Len(files[p].notes)
                         /\ \A i \in DOMAIN files[p].notes :
                              LET a == files[p].notes[i]  b == files'[p].notes[i] IN
                              IF a.zid # NoZid \/ files[p].broken THEN b = a
                              ELSE b = [a EXCEPT !.zid = b.zid, !.ld = 0] /\ b.zid # NoZid ]_vars
\* C06: after a plain reindex the index is what a rebuild of the final files would give
RebuildEquivalence == last = "reindex" => \A p \in Pages : db[p] = Compile(files[p], today)
NoGhostPages == last = "reindex" => \A p \in Pages : db[p].ex => Exists(p)
\* C11, stated against the user's edits (ghost snap), not against the index's own opinion:
\* a reindex stamps exactly the notes that still carry the ZID they had in the previous index state of their page,
\* whose text / todo state differs from that state, and that are not dated today; nothing else changes in any file
EditedSince(n, p) == /\ n.zid # NoZid /\ db[p].ex /\ n.zid \in ZidsOfIdx(db[p])
                     /\ snap[n.uid] # NoSnap /\ TextOf(n) # snap[n.uid]
StampIff ==
  [][ last' \in {"reindex", "reindexPaths"} =>
        \A p \in Pages : /\ Len(files'[p].notes) = Len(files[p].notes)
                         /\ \A i \in DOMAIN files[p].notes :
                              LET a == files[p].notes[i]  b == files'[p].notes[i]
                                  inS  == p \in Changed(lastArg')
                                  must == inS /\ ~files[p].broken /\ EditedSince(a, p) /\ EffMd(a, today) # today
                              IN /\ (b.md # a.md) <=> must
                                 /\ (b.md # a.md) => b.md = today
                                 /\ [b EXCEPT !.md = a.md, !.zid = a.zid, !.ld = a.ld] = a ]_vars
\* the ghost agrees with the index (ties `previous index state' to what the user last had indexed)
GhostAgrees == \A p \in Pages : db[p].ex /\ ~db[p].broken /\ files[p].ex /\ hashes[p] = files[p] =>
                  \A i \in DOMAIN files[p].notes : snap[files[p].notes[i].uid] = TextOf(files[p].notes[i])
\* C08 (protocol part): a broken page is in the index only while whitelisted
BrokenOnlyIfWhitelisted == \A p \in Pages : (db[p].ex /\ db[p].broken) => p \in wl
\* C07 at this level: counters never go back
CountersMonotone == [][ \A d \in DOMAIN nextId : nextId'[d] >= nextId[d] ]_vars
=============================================================================
