------------------------------ MODULE MC_Query ------------------------------
(* Case generator for C04: every case of the chosen family is an initial     *)
(* state; EmitCase prints it as JSON for the replay into build_zorg_query.   *)
EXTENDS QueryGrammar, Json
CONSTANTS Family, TY, TM, TD, Deep
VARIABLE c
Today == << TY, TM, TD >>
Ns == IF Deep THEN (0..40) \cup {99, 365, 400} ELSE {0, 1, 2, 12, 13, 28, 31, 40, 365}
Tails == { NoTail, RelSpec(0, "d", FALSE), RelSpec(1, "m", FALSE), RelSpec(2, "y", FALSE), RelSpec(1, "y", TRUE), AbsSpec(<<2025, 3, 1>>) }
Cases == CASE Family = "prio"   -> PrioCases
           [] Family = "kinds"  -> KindCases
           [] Family = "select" -> SelectCases
           [] Family = "order"  -> OrderCases(IF Deep THEN 3 ELSE 2)
           [] Family = "group"  -> GroupCases(IF Deep THEN 3 ELSE 2) \cup Dim4Cases
           [] Family = "dates"  -> DateCases(Today, Ns, Tails)
           [] Family = "props"  -> PropCases
           [] Family = "tags"   -> TagCases
Init == c \in Cases
Next == UNCHANGED c
Spec == Init /\ [][Next]_c
EmitCase == PrintT(ToJson(c))
=============================================================================
