SPECIFICATION Spec
CONSTANT Deep = FALSE
INVARIANT EmitCase
INVARIANT LawHolds
CHECK_DEADLOCK FALSE
