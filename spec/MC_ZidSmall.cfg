SPECIFICATION Spec
CONSTANTS
  Dates = {1, 2, 3}
  N = 2
INVARIANT TypeOK
INVARIANT Monotone
INVARIANT ChainAgrees
INVARIANT WellFormed
INVARIANT ExhaustOnlyWhenFull
PROPERTY NoReuse
CHECK_DEADLOCK FALSE
