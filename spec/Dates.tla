-------------------------------- MODULE Dates --------------------------------
(* Civil-calendar arithmetic on dates <<y, m, d>> (proleptic Gregorian), as  *)
(* zorg's relative date specs need it: days, calendar months with             *)
(* end-of-month clamping, years (29 Feb -> 28 Feb), into the future or past.  *)
EXTENDS Integers, Sequences
IsLeap(y) == (y % 4 = 0 /\ y % 100 # 0) \/ y % 400 = 0
DaysInMonth(y, m) == IF m = 2 THEN (IF IsLeap(y) THEN 29 ELSE 28)
                     ELSE IF m \in {4, 6, 9, 11} THEN 30 ELSE 31
Valid(dt) == dt[2] \in 1..12 /\ dt[3] \in 1..DaysInMonth(dt[1], dt[2])
\* days since 0000-03-01 (Hinnant's days_from_civil, shifted), years >= 1
Ord(dt) == LET y == IF dt[2] <= 2 THEN dt[1] - 1 ELSE dt[1]
               mp == (dt[2] + 9) % 12
               era == y \div 400
               yoe == y - era * 400
               doy == (153 * mp + 2) \div 5 + dt[3] - 1
               doe == yoe * 365 + yoe \div 4 - yoe \div 100 + doy
           IN era * 146097 + doe
FromOrd(z) == LET era == z \div 146097
                  doe == z - era * 146097
                  yoe == (doe - doe \div 1460 + doe \div 36524 - doe \div 146096) \div 365
                  y   == yoe + era * 400
                  doy == doe - (365 * yoe + yoe \div 4 - yoe \div 100)
                  mp  == (5 * doy + 2) \div 153
                  d   == doy - (153 * mp + 2) \div 5 + 1
                  m   == IF mp < 10 THEN mp + 3 ELSE mp - 9
              IN << IF m <= 2 THEN y + 1 ELSE y, m, d >>
AddDays(dt, n) == FromOrd(Ord(dt) + n)
Clamp(y, m, d) == << y, m, IF d > DaysInMonth(y, m) THEN DaysInMonth(y, m) ELSE d >>
AddMonths(dt, n) == LET t == dt[1] * 12 + (dt[2] - 1) + n IN Clamp(t \div 12, (t % 12) + 1, dt[3])
AddYears(dt, n) == Clamp(dt[1] + n, dt[2], dt[3])
\* a relative spec: unit \in {"d", "m", "y"}, count n >= 0, past = leading minus
Rel(today, unit, n, past) == LET k == IF past THEN 0 - n ELSE n IN
   CASE unit = "d" -> AddDays(today, k) [] unit = "m" -> AddMonths(today, k) [] unit = "y" -> AddYears(today, k)
Ymd(dt) == dt[1] * 10000 + dt[2] * 100 + dt[3]
=============================================================================
