------------------------------- MODULE SavedQ -------------------------------
(***************************************************************************)
(* Saved-query references (C15): {name} inside a WHERE clause stands for    *)
(* the WHERE clause of the saved query page zoq/name.zoq, as a unit.        *)
(* An and-filter may carry `refs : Seq(name)`; Subst replaces every         *)
(* reference by the saved clause (itself substituted, recursively) as a     *)
(* parenthesised sub-filter of the and-filter it occurs in.                 *)
(***************************************************************************)
EXTENDS Filter

RECURSIVE SubstOr(_, _, _), SubstAnd(_, _, _), SubstRefs(_, _, _)
\* S : [name -> or-filter (Seq of and-filters with refs)];  fuel bounds the recursion (acyclic sets need |S|)
SubstRefs(refs, S, fuel) == IF refs = << >> THEN << >>
                            ELSE << SubstOr(S[refs[1]], S, fuel - 1) >> \o SubstRefs(Tail(refs), S, fuel)
SubstAnd(f, S, fuel) == [kinds |-> f.kinds, prios |-> f.prios, tags |-> f.tags, cr |-> f.cr, mr |-> f.mr, props |-> f.props,
                         texts |-> f.texts, files |-> f.files, links |-> f.links,
                         ors |-> [i \in DOMAIN f.ors |-> SubstOr(f.ors[i], S, fuel)] \o SubstRefs(f.refs, S, fuel)]
SubstOr(fs, S, fuel) == [i \in DOMAIN fs |-> SubstAnd(fs[i], S, fuel)]

\* the law the property states: a reference filters like the saved clause, whatever surrounds it
RefLaw(U, n, ctx, name, S, fuel) ==
   SatOr(U, n, SubstOr(<< [ctx EXCEPT !.refs = << name >>] >>, S, fuel))
     = (SatAnd(U, n, SubstAnd(ctx, S, fuel)) /\ SatOr(U, n, SubstOr(S[name], S, fuel)))
=============================================================================
