------------------------------- MODULE SavedQ -------------------------------
(***************************************************************************)
(* Saved-query references (C15): {name} inside a WHERE clause stands for    *)
(* the WHERE clause of the saved query page zoq/name.zoq, as a unit.        *)
(* An and-filter may carry `refs : Seq(name)`; Subst replaces every         *)
(* reference by the saved clause (itself substituted, recursively) as a     *)
(* parenthesised sub-filter of the and-filter it occurs in.                 *)
(***************************************************************************)
EXTENDS Filter

RECURSIVE SubstOr(_, _, _), SubstAnd(_, _, _), SubstRefs(_, _, _)
\* S : [name -> or-filter (Seq of and-filters with refs)];  fuel bounds the recursion (acyclic sets need |S|)
SubstRefs(refs, S, fuel) == IF refs = << >> THEN << >>
                            ELSE << SubstOr(S[refs[1]], S, fuel - 1) >> \o SubstRefs(Tail(refs), S, fuel)
SubstAnd(f, S, fuel) == [kinds |-> f.kinds, prios |-> f.prios, tags |-> f.tags, cr |-> f.cr, mr |-> f.mr, props |-> f.props,
                         texts |-> f.texts, files |-> f.files, links |-> f.links,
                         ors |-> [i \in DOMAIN f.ors |-> SubstOr(f.ors[i], S, fuel)] \o SubstRefs(f.refs, S, fuel)]
SubstOr(fs, S, fuel) == [i \in DOMAIN fs |-> SubstAnd(fs[i], S, fuel)]

\* As built (the recorded deviation, kept apart so that it explains nothing else): the saved clause is pasted as TEXT, in
\* parentheses only if its expanded text contains " | " (B[name], computed by the model that also spells the text); pasted
\* plain, its atoms join the and-group they land in, where kinds and priorities pool into one set each.
RECURSIVE SubstOrB(_, _, _, _), SubstAndB(_, _, _, _), MergeRefsB(_, _, _, _, _)
MergeF(f, g) == [kinds |-> f.kinds \o g.kinds, prios |-> f.prios \o g.prios, tags |-> f.tags \o g.tags, cr |-> f.cr \o g.cr,
                 mr |-> f.mr \o g.mr, props |-> f.props \o g.props, texts |-> f.texts \o g.texts, files |-> f.files \o g.files,
                 links |-> f.links \o g.links, ors |-> f.ors \o g.ors]
MergeRefsB(acc, refs, S, B, fuel) ==
  IF refs = << >> THEN acc
  ELSE LET g == SubstOrB(S[refs[1]], S, B, fuel - 1)
       IN MergeRefsB(IF B[refs[1]] \/ Len(g) # 1 THEN [acc EXCEPT !.ors = @ \o << g >>] ELSE MergeF(acc, g[1]), Tail(refs), S, B, fuel)
SubstAndB(f, S, B, fuel) ==
  MergeRefsB([kinds |-> f.kinds, prios |-> f.prios, tags |-> f.tags, cr |-> f.cr, mr |-> f.mr, props |-> f.props, texts |-> f.texts,
              files |-> f.files, links |-> f.links, ors |-> [i \in DOMAIN f.ors |-> SubstOrB(f.ors[i], S, B, fuel)]], f.refs, S, B, fuel)
SubstOrB(fs, S, B, fuel) == [i \in DOMAIN fs |-> SubstAndB(fs[i], S, B, fuel)]

\* the law the property states: a reference filters like the saved clause, whatever surrounds it
RefLaw(U, n, ctx, name, S, fuel) ==
   SatOr(U, n, SubstOr(<< [ctx EXCEPT !.refs = << name >>] >>, S, fuel))
     = (SatAnd(U, n, SubstAnd(ctx, S, fuel)) /\ SatOr(U, n, SubstOr(S[name], S, fuel)))
=============================================================================
