------------------------------- MODULE MC_Zoq -------------------------------
(* Case generator for the refresh of saved-query pages: every page of up to five lines over the line classes (the    *)
(* first line is the query), refreshed once and twice; the laws are checked on the specification itself.              *)
EXTENDS FileOps, Json
VARIABLES n, c
Q      == [cls |-> "hdr",   txt |-> "# S note O none", eh |-> FALSE]
H      == [cls |-> "hdr",   txt |-> "# keep me", eh |-> FALSE]
HX     == [cls |-> "hdr",   txt |-> "# see issue #", eh |-> TRUE]       \* a header line that merely ends in "#"
S      == [cls |-> "stats", txt |-> "# SAVED QUERY GENERATED ON 2001-02-03 AT 04:05:06.", eh |-> FALSE]
B      == [cls |-> "other", txt |-> "", eh |-> FALSE]
R      == [cls |-> "other", txt |-> "- 200101#00 stale result", eh |-> FALSE]
Stats  == [cls |-> "stats", txt |-> "<STATS>", eh |-> FALSE]             \* the binding substitutes the line zorg writes today
Res    == << [cls |-> "other", txt |-> "<RESULTS>", eh |-> FALSE] >>     \* ... and the current results
Lines  == {H, HX, BareLine, S, B, R}
Files(k) == { << Q >> \o t : t \in [1..k -> Lines] }
Init == n \in 0..4 /\ c = << >>
Next == /\ c = << >> /\ UNCHANGED n
        /\ \E f \in Files(n) : c' = [file |-> f, once |-> ZoqRefresh(f, Stats, Res), twice |-> ZoqRefresh(ZoqRefresh(f, Stats, Res), Stats, Res)]
Spec == Init /\ [][Next]_<<n, c>>
EmitCase == c = << >> \/ PrintT(ToJson(c))
Idempotent == c = << >> \/ c.twice = c.once
HeaderKept == c = << >> \/ (ZoqHeader(c.once) \in { ZoqHeader(c.file), ZoqHeader(c.file) \o << BareLine >> } /\ c.once[1] = c.file[1])
NoAccumulation == c = << >> \/ Len(c.once) <= ZoqHeaderLen(c.file) + 3 + Len(Res)
=============================================================================
