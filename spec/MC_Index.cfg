SPECIFICATION Spec
CONSTANTS
  Pages = {1, 2}
  MaxNotes = 2
  MaxDay = 2
  MaxSteps = 6
  MaxUid = 3
  Kinds <- KindsSmall
  Feature <- FeatEdit
INVARIANT Agreement
INVARIANT AllZid
INVARIANT UniqueZid
INVARIANT ZidsBelowCounter
INVARIANT RebuildEquivalence
INVARIANT NoGhostPages
INVARIANT GhostAgrees
INVARIANT BrokenOnlyIfWhitelisted
PROPERTY Idempotent
PROPERTY OnlyZidInsertions
PROPERTY StampIff
PROPERTY CountersMonotone
CHECK_DEADLOCK FALSE
