------------------------------- MODULE Zid -------------------------------
(***************************************************************************)
(* The ZID allocator of zorg (ZIDManager.get_next / next_ids.json).       *)
(*                                                                         *)
(* A ZID is YYMMDD#<suffix>.  Per date the suffixes form one chain: all    *)
(* two-character suffixes in odometer order over the alphabet, then all    *)
(* three-character ones; after the last one allocation fails explicitly.   *)
(* The only state is the file next_ids.json (date -> next unused suffix):  *)
(* a manager object has no state of its own, so a process restart is a     *)
(* stutter on the durable state.                                           *)
(*                                                                         *)
(* Suffixes are sequences of digit indices 0..N-1 (N = Len(Alphabet) for   *)
(* the real allocator; small N for interleaving configurations).           *)
(***************************************************************************)
EXTENDS Naturals, Sequences, FiniteSets, TLC

CONSTANTS Dates,        \* set of dates (model values / small naturals)
          N             \* alphabet size

\* The allocator's alphabet: 0-9 A-Z a-z without the look-alikes I O Q S g i j l p q y
Alphabet == << "0","1","2","3","4","5","6","7","8","9",
               "A","B","C","D","E","F","G","H","J","K","L","M","N","P","R","T","U","V","W","X","Y","Z",
               "a","b","c","d","e","f","h","k","m","n","o","r","s","t","u","v","w","x","z" >>
Excluded == {"I","O","Q","S","g","i","j","l","p","q","y"}

ASSUME Len(Alphabet) = 51
ASSUME \A i \in DOMAIN Alphabet : Alphabet[i] \notin Excluded

\* TLC cannot compare a sequence with a string, so the two non-suffix values of the map are
\* sequences of other lengths, and the result of a call is a record.
Unset     == << >>
Exhausted == << N >>
OutOfIds  == [r |-> "OutOfIds"]
NoAlloc   == [r |-> "NoAlloc"]
Got(d, s) == [r |-> "ok", d |-> d, s |-> s]

Digit   == 0 .. N-1
Suffix2 == [1..2 -> Digit]
Suffix3 == [1..3 -> Digit]
Total   == N*N + N*N*N                      \* 135,252 for N = 51

IsSuffix(s) == Len(s) \in {2, 3} /\ \A i \in DOMAIN s : s[i] \in Digit

---------------------------------------------------------------------------
\* Declarative chain: position <-> suffix by arithmetic
Rank(s) == IF Len(s) = 2 THEN s[1]*N + s[2]
           ELSE N*N + s[1]*N*N + s[2]*N + s[3]
Unrank(r) == IF r < N*N THEN << r \div N, r % N >>
             ELSE LET q == r - N*N IN << q \div (N*N), (q \div N) % N, q % N >>

\* Operational successor: the odometer the code implements (_get_next_id)
Succ(s) ==
  IF Len(s) = 2 THEN
       IF s[2] < N-1 THEN << s[1], s[2]+1 >>
       ELSE IF s[1] < N-1 THEN << s[1]+1, 0 >>
       ELSE << 0, 0, 0 >>                                  \* zz -> 000
  ELSE IF s[3] < N-1 THEN << s[1], s[2], s[3]+1 >>
       ELSE IF s[2] < N-1 THEN << s[1], s[2]+1, 0 >>
       ELSE IF s[1] < N-1 THEN << s[1]+1, 0, 0 >>
       ELSE Exhausted                                      \* zzz -> no successor

---------------------------------------------------------------------------
VARIABLES nextIds,     \* [Dates -> Suffix \cup {Unset, Exhausted}]      next_ids.json
          burntCnt,    \* [Dates -> Nat]  ghost: suffixes consumed so far (returned or lost in a crash)
          last,        \* result of the last call: <<date, suffix>>, OutOfIds, or NoAlloc
          proc         \* 0/1: flips when the manager object is re-created (process restart)
vars == << nextIds, burntCnt, last, proc >>

Cur(d) == IF nextIds[d] = Unset THEN << 0, 0 >> ELSE nextIds[d]

\* get_next(d) returning normally
Alloc(d) ==
  /\ nextIds[d] # Exhausted
  /\ last'     = Got(d, Cur(d))
  /\ nextIds'  = [nextIds  EXCEPT ![d] = Succ(Cur(d))]
  /\ burntCnt' = [burntCnt EXCEPT ![d] = @ + 1]
  /\ UNCHANGED proc

\* get_next(d) when the date's chain is used up: explicit error, nothing changes
AllocFails(d) ==
  /\ nextIds[d] = Exhausted
  /\ last' = OutOfIds
  /\ UNCHANGED << nextIds, burntCnt, proc >>

\* the process dies after next_ids.json was written and before the ZID reached its caller
AllocLost(d) ==
  /\ nextIds[d] # Exhausted
  /\ nextIds'  = [nextIds  EXCEPT ![d] = Succ(Cur(d))]
  /\ burntCnt' = [burntCnt EXCEPT ![d] = @ + 1]
  /\ last' = NoAlloc /\ proc' = 1 - proc

\* a new manager object / a new process: no durable effect
Restart == proc' = 1 - proc /\ UNCHANGED << nextIds, burntCnt, last >>

InitFrom(starts) ==
  /\ nextIds \in [Dates -> starts]
  /\ burntCnt = [d \in Dates |-> IF nextIds[d] = Unset THEN 0 ELSE Rank(nextIds[d])]
  /\ last = NoAlloc /\ proc = 0

Init == InitFrom({Unset})
Next == \E d \in Dates : Alloc(d) \/ AllocFails(d) \/ AllocLost(d) \/ Restart
Spec == Init /\ [][Next]_vars

---------------------------------------------------------------------------
\* Properties (C07)
TypeOK == /\ \A d \in Dates : nextIds[d] \in {Unset, Exhausted} \/ IsSuffix(nextIds[d])
          /\ last.r \in {"OutOfIds", "NoAlloc"} \/ (last.r = "ok" /\ last.d \in Dates /\ IsSuffix(last.s))

\* the k-th allocation of a date returns the k-th suffix of the declarative chain: in particular
\* no suffix is returned twice, whatever restarts and lost allocations happen in between
Monotone == last.r = "ok" => Rank(last.s) = burntCnt[last.d] - 1

\* the odometer and the arithmetic chain agree on the durable state
ChainAgrees == \A d \in Dates :
                  /\ IsSuffix(nextIds[d]) => (Rank(nextIds[d]) = burntCnt[d] /\ Unrank(burntCnt[d]) = nextIds[d])
                  /\ (nextIds[d] = Exhausted) <=> (burntCnt[d] = Total)
                  /\ nextIds[d] = Unset => burntCnt[d] = 0

WellFormed == last.r = "ok" =>
                 /\ Len(last.s) \in {2, 3}
                 /\ \A i \in DOMAIN last.s : last.s[i] \in Digit
                 /\ (Len(last.s) = 3 => burntCnt[last.d] > N*N)        \* three characters only after zz

ExhaustOnlyWhenFull == last = OutOfIds => \E d \in Dates : burntCnt[d] = Total

\* an allocation never returns a suffix consumed before (action form of uniqueness)
NoReuse == [][ \A d \in Dates : (last'.r = "ok" /\ last'.d = d /\ nextIds'[d] # nextIds[d])
                  => Rank(last'.s) >= burntCnt[d] ]_vars

\* spelling (used by the binding and by trace validation)
Spell(s) == IF Len(s) = 2 THEN Alphabet[s[1]+1] \o Alphabet[s[2]+1]
            ELSE Alphabet[s[1]+1] \o Alphabet[s[2]+1] \o Alphabet[s[3]+1]
IdxOf(c) == IF \E i \in DOMAIN Alphabet : Alphabet[i] = c
            THEN (CHOOSE i \in DOMAIN Alphabet : Alphabet[i] = c) - 1 ELSE N + 1000
=============================================================================
