------------------------------- MODULE Filter -------------------------------
(***************************************************************************)
(* What a WHERE filter means on an index (C03; reused by C15).             *)
(*                                                                         *)
(* Universe U: a sequence of notes                                         *)
(*   [zid, page, kind, prio, tags : Seq(<<type, name>>), cd, md : YYYYMMDD,*)
(*    props : Seq(<<key, value text>>), body : text, links : Seq(text)]    *)
(* All text that is compared character-wise is a sequence of code points.  *)
(* A filter is an OR of AND-filters (as zorg's WhereOrFilter):             *)
(*   andf == [kinds, prios : Seq, tags : Seq([ty, name, neg]),             *)
(*            cr, mr : Seq(<<lo, hi>>),  (hi = 0: single day)              *)
(*            props : Seq([key, op, vt, ival, sval, neg]),                  *)
(*            texts : Seq([v, cs, neg]),  cs \in {"yes", "no", "smart"}     *)
(*            files : Seq([glob, neg]), links : Seq([page, neg]),           *)
(*            ors   : Seq(Seq(andf))]                                       *)
(***************************************************************************)
EXTENDS Naturals, Sequences, FiniteSets, TLC

Range(s) == { s[i] : i \in DOMAIN s }

\* ----- text
IsUpper(c) == c >= 65 /\ c <= 90
IsLower(c) == c >= 97 /\ c <= 122
Low(c)  == IF IsUpper(c) THEN c + 32 ELSE c
LowS(s) == [i \in DOMAIN s |-> Low(s[i])]
HasSub(s, t) == \E i \in 0..(Len(s) - Len(t)) : \A j \in 1..Len(t) : s[i + j] = t[j]
StartsWith(s, t) == Len(s) >= Len(t) /\ \A j \in 1..Len(t) : s[j] = t[j]
\* smart case: a needle without capital letters is matched case-insensitively
\* (Python's str.islower(): at least one cased character and none of them upper-case)
AllLowerCased(t) == (\E i \in DOMAIN t : IsLower(t[i])) /\ ~(\E i \in DOMAIN t : IsUpper(t[i]))
CaseSensitive(f) == f.cs = "yes" \/ (f.cs = "smart" /\ ~AllLowerCased(f.v))
TextSat(body, f) == IF CaseSensitive(f) THEN HasSub(body, f.v) ELSE HasSub(LowS(body), LowS(f.v))

\* `*` glob over a path: every other character stands for itself
Star == 42
RECURSIVE Glob(_, _, _, _)
Glob(p, i, s, j) ==       \* does p[i..] match s[j..] ?
  IF i > Len(p) THEN j > Len(s)
  ELSE IF p[i] = Star THEN \E k \in j..(Len(s) + 1) : Glob(p, i + 1, s, k)
  ELSE j <= Len(s) /\ p[i] = s[j] /\ Glob(p, i + 1, s, j + 1)
GlobMatch(p, s) == Glob(p, 1, s, 1)

\* lexicographic order on texts (SQLite's binary collation)
RECURSIVE LexLess(_, _)
LexLess(a, b) == IF b = << >> THEN FALSE ELSE IF a = << >> THEN TRUE
                 ELSE IF a[1] # b[1] THEN a[1] < b[1] ELSE LexLess(Tail(a), Tail(b))

\* ----- atoms
HasTag(n, ty, name) == \E i \in DOMAIN n.tags : n.tags[i][1] = ty /\ n.tags[i][2] = name
InRange(d, r) == r[1] <= d /\ d <= (IF r[2] = 0 THEN r[1] ELSE r[2])

Cmp(op, lt, eq) == CASE op = "EQ" -> eq [] op = "LT" -> lt [] op = "LE" -> (lt \/ eq)
                     [] op = "GT" -> (~lt /\ ~eq) [] op = "GE" -> ~lt
\* a note's value for a key (keys are unique per note); values carry their integer / date reading (0 if none)
PropVals(n, key) == { i \in DOMAIN n.props : n.props[i].key = key }
PropSat(n, f) ==
  IF f.op = "EXISTS" THEN (PropVals(n, f.key) # {}) # f.neg
  ELSE \E i \in PropVals(n, f.key) :              \* a negated comparison still requires the property
         LET v == n.props[i]
             holds == CASE f.vt = "INTEGER" -> Cmp(f.op, v.ival < f.ival, v.ival = f.ival)
                        [] f.vt = "DATE"    -> Cmp(f.op, v.dval < f.ival, v.dval = f.ival)
                        [] f.vt = "STRING"  -> Cmp(f.op, LexLess(v.sval, f.sval), v.sval = f.sval)
         IN holds # f.neg

Hash == 35
LinksTo(U, n, page) ==
  \E i \in DOMAIN n.links :
     LET l == n.links[i] IN
     \/ l = page
     \/ StartsWith(l, Append(page, Hash))
     \/ \E k \in DOMAIN U : U[k].page = page \o <<46, 122, 111>>            \* page ".zo"
          /\ ( l = <<122, 105, 100, 58>> \o U[k].zid                         \* "zid:" zid
               \/ \E q \in DOMAIN U[k].props :
                    \/ (U[k].props[q].key = <<73, 68>>     /\ l = <<103, 108, 111, 98, 97, 108, 58>> \o U[k].props[q].sval)  \* ID  -> "global:"
                    \/ (U[k].props[q].key = <<82, 73, 68>> /\ l = <<114, 101, 102, 58>> \o U[k].props[q].sval) )             \* RID -> "ref:"

RECURSIVE SatAnd(_, _, _), SatOr(_, _, _)
SatAnd(U, n, f) ==
  /\ (f.kinds # << >> => n.kind \in Range(f.kinds))
  /\ (f.prios # << >> => n.prio \in Range(f.prios))                \* plain notes have no priority
  /\ \A i \in DOMAIN f.tags  : HasTag(n, f.tags[i].ty, f.tags[i].name) # f.tags[i].neg
  /\ \A i \in DOMAIN f.cr    : InRange(n.cd, f.cr[i])
  /\ \A i \in DOMAIN f.mr    : InRange(n.md, f.mr[i])
  /\ \A i \in DOMAIN f.props : PropSat(n, f.props[i])
  /\ \A i \in DOMAIN f.texts : TextSat(n.body, f.texts[i]) # f.texts[i].neg
  /\ \A i \in DOMAIN f.files : GlobMatch(f.files[i].glob, n.page) # f.files[i].neg
  /\ \A i \in DOMAIN f.links : LinksTo(U, n, f.links[i].page) # f.links[i].neg
  /\ \A i \in DOMAIN f.ors   : SatOr(U, n, f.ors[i])
SatOr(U, n, fs) == \E i \in DOMAIN fs : SatAnd(U, n, fs[i])

\* the notes a query returns (an absent / empty WHERE returns every note)
Result(U, where) == IF where = << >> THEN { U[k].zid : k \in DOMAIN U }
                    ELSE { U[k].zid : k \in { j \in DOMAIN U : SatOr(U, U[j], where) } }
=============================================================================
