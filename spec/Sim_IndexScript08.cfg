SPECIFICATION Script08Spec
CONSTANTS
  Pages = {1, 2}
  MaxNotes = 2
  MaxDay = 2
  MaxSteps = 10
  MaxUid = 5
  MaxIdle = 2
  Kinds <- KindsSmall
  Feature <- FeatBreak
INVARIANT Agreement
INVARIANT AllZid
INVARIANT UniqueZid
INVARIANT ZidsBelowCounter
INVARIANT RebuildEquivalence
INVARIANT NoGhostPages
INVARIANT GhostAgrees
INVARIANT BrokenOnlyIfWhitelisted
PROPERTY Idempotent
PROPERTY OnlyZidInsertions
PROPERTY StampIff
PROPERTY CountersMonotone
CHECK_DEADLOCK FALSE
