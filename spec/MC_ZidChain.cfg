SPECIFICATION ChainSpec
CONSTANTS
  Dates = {d1}
  N = 51
INVARIANT TypeOK
INVARIANT Monotone
INVARIANT ChainAgrees
INVARIANT WellFormed
INVARIANT ExhaustOnlyWhenFull
PROPERTY NoReuse
POSTCONDITION ExportChain
CHECK_DEADLOCK FALSE
