---------------------------- MODULE MC_ZidChain ----------------------------
(* The complete successor chain of one date for the real alphabet (N = 51): *)
(* a single behaviour of 135,252 allocations followed by the explicit      *)
(* failure.  The arithmetic chain is exported for the replay into the real *)
(* ZIDManager once TLC has checked that the odometer follows it.           *)
EXTENDS Zid, Json, IOUtils
ChainNext == \E d \in Dates : Alloc(d) \/ AllocFails(d)
ChainSpec == Init /\ [][ChainNext]_vars
ExportChain == TLCGet("stats").distinct > 1 /\ JsonSerialize(IOEnv.ZV_OUT, [alphabet |-> Alphabet, chain |-> [r \in 1..Total |-> Unrank(r-1)]])
=============================================================================
