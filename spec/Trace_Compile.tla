---------------------------- MODULE Trace_Compile ----------------------------
(* C08, compile part: the oracle for one recorded compilation of ANY text.   *)
(* A record is                                                               *)
(*   [id, raised : BOOLEAN, hasErrors : BOOLEAN, nNotes : Nat,               *)
(*    parserErrors : Nat,   \* syntax errors reported to an independent      *)
(*                          \* listener attached by the harness              *)
(*    parsedItems : Nat]    \* note/todo items with a non-blank body in the  *)
(*                          \* harness's own parse tree (meaningful iff      *)
(*                          \* parserErrors = 0)                             *)
(* TLC evaluates CompileOK on every record and prints the failing clauses.   *)
EXTENDS Naturals, Sequences, FiniteSets, TLC, Json, IOUtils
VARIABLES tid, phase
Recs == ndJsonDeserialize(IOEnv.ZV_TRACE)

Clauses(e) ==
  { c \in {"raised", "valid-page-flagged", "broken-page-not-flagged", "broken-page-not-flagged-no-items",
            "broken-page-has-notes", "valid-page-lost-notes"} :
      CASE c = "raised"                -> e.raised
        [] c = "valid-page-flagged"    -> ~e.raised /\ e.parserErrors = 0 /\ e.hasErrors
        \* a broken page must be flagged; the sub-class in which the recovered tree holds no item at all is
        \* named separately (it is the recorded finding of C08)
        [] c = "broken-page-not-flagged"          -> ~e.raised /\ e.parserErrors > 0 /\ ~e.hasErrors /\ e.parsedItems > 0
        [] c = "broken-page-not-flagged-no-items" -> ~e.raised /\ e.parserErrors > 0 /\ ~e.hasErrors /\ e.parsedItems = 0
        [] c = "broken-page-has-notes" -> ~e.raised /\ e.parserErrors > 0 /\ e.nNotes # 0
        [] c = "valid-page-lost-notes" -> ~e.raised /\ e.parserErrors = 0 /\ e.nNotes # e.parsedItems }
CompileOK(e) == Clauses(e) = {}

TInit == tid \in DOMAIN Recs /\ phase = 0
TNext == phase = 0 /\ phase' = 1 /\ UNCHANGED tid
         /\ (CompileOK(Recs[tid]) \/ PrintT(ToJson(<< "BAD", Recs[tid].id, Clauses(Recs[tid]) >>)))
TraceSpec == TInit /\ [][TNext]_<<tid, phase>>
=============================================================================
