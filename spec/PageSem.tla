------------------------------ MODULE PageSem ------------------------------
(***************************************************************************)
(* What a .zo page MEANS: the notes written in it (C01), with the metadata *)
(* they carry themselves and inherit from the title and the enclosing      *)
(* sections (C02), and how a note is written back as text (C12).           *)
(*                                                                         *)
(* Declarative: the meaning of an item is a function of the item, the      *)
(* title/head lines and the headers whose section contains it, found by    *)
(* looking backwards in the page - there are no stores and no resets here  *)
(* (the listener-shaped model is PageWalk.tla, which must refine this).    *)
(*                                                                         *)
(* A page is  [title : Words, head : Seq(Words), body : Seq(BodyLine)]     *)
(* rendered as "# title", "# head"..., one blank line, then the body.      *)
(* A body line is                                                          *)
(*   [k |-> "blank"]                                                       *)
(*   [k |-> "sec",  lvl : 1..4, w : Words]           section header        *)
(*   [k |-> "cmt",  w : Words]                       in-block comment      *)
(*   [k |-> "item", kind, prio, gap, w : Words, cont : Seq(ContLine)]      *)
(* A word is a record [c |-> class, txt |-> spelling, ...class fields].    *)
(* The spelling is opaque here except that it is concatenated into the     *)
(* expected body; WordOK ties it to the class fields (the vocabulary).     *)
(* Dates are ISO strings "YYYY-MM-DD"; "" stands for "none".               *)
(***************************************************************************)
EXTENDS Naturals, Sequences, FiniteSets, TLC

None == ""

---------------------------------------------------------------------------
\* Vocabulary: how each word class is spelled, and what it contributes
TagTypes == {"areas", "contexts", "people", "projects"}
TagSym(ty) == CASE ty = "areas" -> "#" [] ty = "contexts" -> "@" [] ty = "people" -> "%" [] ty = "projects" -> "+"

Plain(t)        == [c |-> "plain", txt |-> t]                    \* inert at every position (has exactly one identifier)
SDate(yy,mm,dd) == [c |-> "sdate", yy |-> yy, mm |-> mm, dd |-> dd, txt |-> yy \o mm \o dd]
LDate(y,mm,dd)  == [c |-> "ldate", y |-> y, mm |-> mm, dd |-> dd, txt |-> y \o "-" \o mm \o "-" \o dd]
ZidW(yy,mm,dd,s) == [c |-> "zid", yy |-> yy, mm |-> mm, dd |-> dd, suf |-> s, txt |-> yy \o mm \o dd \o "#" \o s]
Tag(ty, n)      == [c |-> "tag", ty |-> ty, name |-> n, txt |-> TagSym(ty) \o n]
DTag(ty, n)     == [c |-> "dtag", ty |-> ty, name |-> n, txt |-> TagSym(ty) \o n]   \* name made of digits only: never a tag
Link(t)         == [c |-> "link",  target |-> t, txt |-> "[[" \o t \o "]]"]          \* t may be "page#anchor"
LLink(i)        == [c |-> "llink", id |-> i, txt |-> "[^" \o i \o "]"]
GLink(i)        == [c |-> "glink", id |-> i, txt |-> "[#" \o i \o "]"]
RLink(i)        == [c |-> "rlink", id |-> i, txt |-> "[@" \o i \o "]"]
ZLink(z)        == [c |-> "zlink", zid |-> z, txt |-> "[" \o z \o "]"]
XLocal          == [c |-> "xlocal", txt |-> "[^X]"]                                  \* completed check-list item: no link
Prop(k, v)      == [c |-> "prop",  key |-> k, val |-> v, txt |-> k \o "::" \o v]
UProp(k, u)     == [c |-> "uprop", key |-> k, url |-> u, txt |-> k \o "::" \o u]     \* value is a URL: property and link
IProp(k, v)     == [c |-> "iprop", key |-> k, val |-> v, txt |-> "[" \o k \o ":: " \o v \o "]"]  \* v may contain spaces
QProp(k, v)     == [c |-> "qprop", key |-> k, val |-> v, txt |-> "'" \o k \o "::" \o v \o "'"]   \* quoted: not a property
Url(u)          == [c |-> "url", url |-> u, txt |-> u]
\* punctuation around a word keeps its meaning:  (w)  w.  w,
Wrap(pre, w, post) == [w EXCEPT !.txt = pre \o w.txt \o post]

WordClasses == {"plain","sdate","ldate","zid","tag","dtag","link","llink","glink","rlink","zlink","xlocal",
                "prop","uprop","iprop","qprop","url"}

\* The spelling of an unwrapped word is determined by its fields
CoreTxt(w) ==
  CASE w.c = "plain" -> w.txt
    [] w.c = "sdate" -> w.yy \o w.mm \o w.dd
    [] w.c = "ldate" -> w.y \o "-" \o w.mm \o "-" \o w.dd
    [] w.c = "zid"   -> w.yy \o w.mm \o w.dd \o "#" \o w.suf
    [] w.c \in {"tag", "dtag"} -> TagSym(w.ty) \o w.name
    [] w.c = "link"  -> "[[" \o w.target \o "]]"
    [] w.c = "llink" -> "[^" \o w.id \o "]"
    [] w.c = "glink" -> "[#" \o w.id \o "]"
    [] w.c = "rlink" -> "[@" \o w.id \o "]"
    [] w.c = "zlink" -> "[" \o w.zid \o "]"
    [] w.c = "xlocal" -> "[^X]"
    [] w.c = "prop"  -> w.key \o "::" \o w.val
    [] w.c = "uprop" -> w.key \o "::" \o w.url
    [] w.c = "iprop" -> "[" \o w.key \o ":: " \o w.val \o "]"
    [] w.c = "qprop" -> "'" \o w.key \o "::" \o w.val \o "'"
    [] w.c = "url"   -> w.url
Wrappings == { <<"", "">>, <<"(", ")">>, <<"", ".">>, <<"", ",">>, <<"(", "">>, <<"", ")">> }
WordOK(w) == /\ w.c \in WordClasses
             /\ \E p \in Wrappings : w.txt = p[1] \o CoreTxt(w) \o p[2]

\* contributions of one word
WTags(w)  == IF w.c = "tag" THEN { <<w.ty, w.name>> } ELSE {}
WLinks(w) == CASE w.c = "link"  -> { w.target }
               [] w.c = "llink" -> { "local:" \o w.id }
               [] w.c = "glink" -> { "global:" \o w.id }
               [] w.c = "rlink" -> { "ref:" \o w.id }
               [] w.c = "zlink" -> { "zid:" \o w.zid }
               [] w.c = "uprop" -> { "x:" \o w.url }
               [] w.c = "url"   -> { "x:" \o w.url }
               [] OTHER -> {}
WProps(w) == CASE w.c = "prop"  -> << <<w.key, w.val>> >>
               [] w.c = "uprop" -> << <<w.key, w.url>> >>
               [] w.c = "iprop" -> << <<w.key, w.val>> >>
               [] OTHER -> << >>

IsoS(w) == "20" \o w.yy \o "-" \o w.mm \o "-" \o w.dd      \* date of a short date / of a ZID
IsoL(w) == w.y \o "-" \o w.mm \o "-" \o w.dd

---------------------------------------------------------------------------
\* folds over word sequences
RECURSIVE TagsOf(_), LinksOf(_), PropsOf(_), JoinW(_)
TagsOf(ws)  == IF ws = <<>> THEN {} ELSE WTags(Head(ws)) \cup TagsOf(Tail(ws))
LinksOf(ws) == IF ws = <<>> THEN {} ELSE WLinks(Head(ws)) \cup LinksOf(Tail(ws))
PropsOf(ws) == IF ws = <<>> THEN <<>> ELSE WProps(Head(ws)) \o PropsOf(Tail(ws))     \* in order of appearance
JoinW(ws)   == IF ws = <<>> THEN "" ELSE IF Len(ws) = 1 THEN ws[1].txt ELSE ws[1].txt \o " " \o JoinW(Tail(ws))
\* the long date of a header / title line (at most one is written per line)
RECURSIVE DateOf(_)
DateOf(ws)  == IF ws = <<>> THEN None ELSE IF Head(ws).c = "ldate" THEN IsoL(Head(ws)) ELSE DateOf(Tail(ws))

\* right-biased map from a sequence of <<key, value>> pairs: the last pair of a key wins
PropMap(ps) == { ps[i] : i \in { j \in DOMAIN ps : \A m \in DOMAIN ps : (m > j) => ps[m][1] # ps[j][1] } }

---------------------------------------------------------------------------
\* continuation lines of an item
\*   [k |-> "text",    ind, w]            plain continuation text
\*   [k |-> "bullet",  ind, mark, w]      a bullet without a property
\*   [k |-> "pbullet", ind, mark, key, w] a property bullet  `mark key:: w...`
\* The three bullet levels are  "  * ", "    - ", "      + ".
Spaces(n) == IF n = 0 THEN "" ELSE IF n = 1 THEN " " ELSE IF n = 2 THEN "  " ELSE IF n = 3 THEN "   "
             ELSE IF n = 4 THEN "    " ELSE IF n = 5 THEN "     " ELSE IF n = 6 THEN "      " ELSE "        "
BulletLevel(cl) == IF cl.ind = 2 /\ cl.mark = "*" THEN 1 ELSE IF cl.ind = 4 /\ cl.mark = "-" THEN 2
                   ELSE IF cl.ind = 6 /\ cl.mark = "+" THEN 3 ELSE 0
\*   [k |-> "ws", ind, w |-> << >>]       a line of `ind` (>= 2) spaces only (the grammar admits it inside an item)
\* A continuation line may carry `trail` trailing spaces; they belong to the body verbatim (only the very end of
\* the body is stripped, so the last line of an item is written without them).
Trail(cl) == IF "trail" \in DOMAIN cl THEN Spaces(cl.trail) ELSE ""
ContTxt(cl) == CASE cl.k = "text"    -> Spaces(cl.ind) \o JoinW(cl.w) \o Trail(cl)
                 [] cl.k = "bullet"  -> Spaces(cl.ind) \o cl.mark \o " " \o JoinW(cl.w) \o Trail(cl)
                 [] cl.k = "pbullet" -> Spaces(cl.ind) \o cl.mark \o " " \o cl.key \o ":: " \o JoinW(cl.w) \o Trail(cl)
                 [] cl.k = "ws"      -> Spaces(cl.ind)
RECURSIVE ContWords(_), ContBody(_), BulletProps(_)
ContWords(cs) == IF cs = <<>> THEN <<>> ELSE Head(cs).w \o ContWords(Tail(cs))
ContBody(cs)  == IF cs = <<>> THEN "" ELSE "\n" \o ContTxt(Head(cs)) \o ContBody(Tail(cs))
BulletProps(cs) == IF cs = <<>> THEN <<>>
                   ELSE (IF Head(cs).k = "pbullet" THEN << <<Head(cs).key, JoinW(Head(cs).w)>> >> ELSE <<>>)
                        \o BulletProps(Tail(cs))

---------------------------------------------------------------------------
\* an item's own reading
IsItem(l) == l.k = "item"
IsSec(l)  == l.k = "sec"
IsTodo(l) == l.kind # "-"

ZidWordOf(ws) == IF ws # <<>> /\ ws[1].c = "zid" THEN ws[1]
                 ELSE IF Len(ws) > 1 /\ ws[1].c = "sdate" /\ ws[2].c = "zid" THEN ws[2] ELSE [c |-> "none"]
ZidOf(ws)   == IF ZidWordOf(ws).c = "zid" THEN CoreTxt(ZidWordOf(ws)) ELSE None
MDateOf(ws) == IF ws # <<>> /\ ws[1].c = "sdate" THEN IsoS(ws[1]) ELSE None
OwnDate(ws) == IF ZidWordOf(ws).c = "zid" THEN IsoS(ZidWordOf(ws))
               ELSE IF ws # <<>> /\ ws[1].c = "ldate" THEN IsoL(ws[1]) ELSE None

AllWords(it) == it.w \o ContWords(it.cont)
OwnTags(it)  == TagsOf(AllWords(it))
OwnLinks(it) == LinksOf(AllWords(it))
OwnProps(it) == PropsOf(AllWords(it)) \o BulletProps(it.cont)        \* bullet properties are read last
Body(it)     == JoinW(it.w) \o ContBody(it.cont)                      \* verbatim, outer whitespace stripped

---------------------------------------------------------------------------
\* the section tree, read backwards from a body position
OpenAt(body, i, L) ==   \* index of the level-L header whose section contains body line i, or 0
  LET c == { j \in 1..(i-1) : IsSec(body[j]) /\ body[j].lvl = L
                              /\ \A m \in (j+1)..(i-1) : ~(IsSec(body[m]) /\ body[m].lvl <= L) }
  IN IF c = {} THEN 0 ELSE CHOOSE j \in c : TRUE
Encl(body, i) == { OpenAt(body, i, L) : L \in 1..4 } \ {0}
HdrW(body, i, L) == IF OpenAt(body, i, L) = 0 THEN <<>> ELSE body[OpenAt(body, i, L)].w
\* a header may only open under an open parent (H2 may stand under the implicit H0)
LegalSec(body, i) == CASE body[i].lvl \in {1, 2} -> TRUE
                       [] body[i].lvl = 3 -> OpenAt(body, i, 2) # 0
                       [] body[i].lvl = 4 -> OpenAt(body, i, 3) # 0

First(s) == LET idx == { i \in DOMAIN s : s[i] # None } IN
            IF idx = {} THEN None ELSE s[CHOOSE i \in idx : \A j \in idx : i <= j]

\* physical lines: title, head lines, one blank line, then the body
Height(l) == IF IsItem(l) THEN 1 + Len(l.cont) ELSE 1
RECURSIVE HeightSum(_, _)
HeightSum(body, n) == IF n = 0 THEN 0 ELSE Height(body[n]) + HeightSum(body, n-1)
LineNo(page, i) == 1 + Len(page.head) + 1 + HeightSum(page.body, i-1) + 1

RECURSIVE HeadProps(_)
HeadProps(hs) == IF hs = <<>> THEN <<>> ELSE PropsOf(Head(hs)) \o HeadProps(Tail(hs))

\* block ordinal: a block starts at an item / comment that is first in the body or follows a blank line or header
StartsBlock(body, j) == body[j].k \in {"item", "cmt"} /\ (j = 1 \/ body[j-1].k \in {"blank", "sec"})
BlockNo(body, i) == Cardinality({ j \in 1..i : StartsBlock(body, j) })
SecPath(body, i) == [L \in 1..4 |-> JoinW(HdrW(body, i, L))]

NoteOf(page, i, today) ==
  LET b  == page.body
      it == b[i]
      ws == it.w
      cd == First(<< OwnDate(ws), DateOf(HdrW(b,i,4)), DateOf(HdrW(b,i,3)), DateOf(HdrW(b,i,2)), DateOf(HdrW(b,i,1)),
                     DateOf(page.title), today >>)
  IN [ line  |-> LineNo(page, i),
       kind  |-> it.kind,
       prio  |-> IF ~IsTodo(it) THEN None ELSE IF it.prio = None THEN "P3" ELSE it.prio,
       zid   |-> ZidOf(ws),
       cdate |-> cd,
       mdate |-> IF MDateOf(ws) # None THEN MDateOf(ws) ELSE cd,
       body  |-> Body(it),
       tags  |-> TagsOf(page.title) \cup UNION { TagsOf(b[j].w) : j \in Encl(b, i) } \cup OwnTags(it),
       links |-> LinksOf(page.title) \cup UNION { LinksOf(b[j].w) : j \in Encl(b, i) } \cup OwnLinks(it),
       props |-> PropMap( PropsOf(page.title) \o HeadProps(page.head)
                          \o PropsOf(HdrW(b,i,1)) \o PropsOf(HdrW(b,i,2)) \o PropsOf(HdrW(b,i,3)) \o PropsOf(HdrW(b,i,4))
                          \o OwnProps(it) ),
       sec   |-> SecPath(b, i),
       blk   |-> BlockNo(b, i) ]

RECURSIVE NotesUpTo(_, _, _)
NotesUpTo(page, n, today) ==
  IF n = 0 THEN <<>>
  ELSE IF IsItem(page.body[n]) THEN Append(NotesUpTo(page, n-1, today), NoteOf(page, n, today))
  ELSE NotesUpTo(page, n-1, today)
Notes(page, today) == NotesUpTo(page, Len(page.body), today)

WellFormedPage(page) ==
  /\ page.title # <<>>
  /\ \A i \in DOMAIN page.body : IsSec(page.body[i]) => LegalSec(page.body, i)

---------------------------------------------------------------------------
\* C12: the text form of a note (Note.to_string) and what survives the round trip
RenderNote(n) == n.kind \o (IF n.kind \in {"o", "<", ">"} THEN " " \o n.prio ELSE "") \o " " \o n.body
=============================================================================
