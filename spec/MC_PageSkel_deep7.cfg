SPECIFICATION DeepSpec
CONSTANTS
  MaxLines = 99
  MaxHdrs = 7
  DateChoices = {FALSE}
  OwnChoices = {FALSE}
  WithCmt = FALSE
  Det = TRUE
INVARIANT Refines
INVARIANT LegalAgrees
INVARIANT NoLeak
INVARIANT NonItemsNeverNotes
INVARIANT LinesIncrease
INVARIANT EmitPage
CHECK_DEADLOCK FALSE
