----------------------------- MODULE Trace_Index -----------------------------
(* I->S validation of recorded `db create` / `db reindex` runs of the real zorg *)
(* against Index.tla.  One NDJSON record = one command of a random history:     *)
(*   [id, cmd : "create" | "reindex", force, paths, ok (exit status 0), today,   *)
(*    pre, post : [files, db, vouched : <<BOOLEAN per page>>, wl, ctr]]           *)
(* Files / index are projected by harness/bind_index.py; ZIDs are relabelled     *)
(* <<day, k>> in order of first occurrence over pre then post, `ctr` = labels     *)
(* used per day in `pre` (so freshly assigned ZIDs continue the numbering).       *)
(* The record is accepted iff the specification's command, started in `pre`,      *)
(* ends in `post`; otherwise the specification's successor is printed.            *)
EXTENDS MC_Index, Json, IOUtils
VARIABLES tid, phase
Recs == ndJsonDeserialize(IOEnv.ZV_TRACE)
R == Recs[tid]
Fn(s) == [p \in Pages |-> s[p]]
Hashes(st) == [p \in Pages |-> IF st.files[p].ex /\ st.vouched[p] THEN st.files[p] ELSE NoHash]
SetOf(s) == { s[i] : i \in DOMAIN s }
TInit == /\ tid \in DOMAIN Recs /\ phase = 0
         /\ files = Fn(Recs[tid].pre.files) /\ db = Fn(Recs[tid].pre.db) /\ hashes = Hashes(Recs[tid].pre)
         /\ nextId = [d \in 1..MaxDay |-> Recs[tid].pre.ctr[d]] /\ wl = SetOf(Recs[tid].pre.wl) /\ today = Recs[tid].today
         /\ nuid = 0 /\ snap = [u \in 1..MaxUid |-> NoSnap] /\ steps = 0 /\ last = "init" /\ lastArg = {}
         /\ trash = [p \in Pages |-> Absent]
Cmd == CASE R.cmd = "create"  /\ R.ok  -> DbCreate(R.force)
         [] R.cmd = "create"  /\ ~R.ok -> DbCreateRefused
         [] R.cmd = "reindex" /\ R.ok  -> DbReindex(SetOf(R.paths))
         [] R.cmd = "reindex" /\ ~R.ok -> DbReindexRefused(SetOf(R.paths))
TNext == /\ phase = 0 /\ phase' = 1 /\ UNCHANGED tid
         /\ Cmd
         /\ LET good == files' = Fn(R.post.files) /\ db' = Fn(R.post.db)
            IN PrintT(ToJson(IF good THEN [id |-> R.id, ok |-> TRUE] ELSE [id |-> R.id, ok |-> FALSE, files |-> files', db |-> db']))
TraceSpec == TInit /\ [][TNext]_<<vars, tid, phase>>
=============================================================================
