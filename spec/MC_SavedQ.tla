------------------------------ MODULE MC_SavedQ ------------------------------
(* C15 case generator: acyclic sets of saved queries qa -> qb -> qc (chains,   *)
(* diamonds, independent ones), each saved clause a conjunction, alternatives,  *)
(* a parenthesised group or containing references, with S / O / G clauses in    *)
(* either order on the page's first line; referencing queries put {qa} after,   *)
(* before, beside and inside a context.  Expected = Filter!Result of the        *)
(* substituted tree on the designed universe.                                   *)
EXTENDS SavedQ, Json, IOUtils
VARIABLE c
Atoms == JsonDeserialize(IOEnv.ZV_ATOMS)
U0    == JsonDeserialize(IOEnv.ZV_UNIV).notes
At(t) == CHOOSE i \in DOMAIN Atoms : Atoms[i].txt = t
F(t)  == [kinds |-> Atoms[At(t)].f.kinds, prios |-> Atoms[At(t)].f.prios, tags |-> Atoms[At(t)].f.tags, cr |-> Atoms[At(t)].f.cr,
          mr |-> Atoms[At(t)].f.mr, props |-> Atoms[At(t)].f.props, texts |-> Atoms[At(t)].f.texts, files |-> Atoms[At(t)].f.files,
          links |-> Atoms[At(t)].f.links, ors |-> <<>>, refs |-> <<>>]
And2(f, g) == [kinds |-> f.kinds \o g.kinds, prios |-> f.prios \o g.prios, tags |-> f.tags \o g.tags, cr |-> f.cr \o g.cr,
               mr |-> f.mr \o g.mr, props |-> f.props \o g.props, texts |-> f.texts \o g.texts, files |-> f.files \o g.files,
               links |-> f.links \o g.links, ors |-> f.ors \o g.ors, refs |-> f.refs \o g.refs]
E0 == [kinds |-> <<>>, prios |-> <<>>, tags |-> <<>>, cr |-> <<>>, mr |-> <<>>, props |-> <<>>, texts |-> <<>>, files |-> <<>>,
       links |-> <<>>, ors |-> <<>>, refs |-> <<>>]
Ref(n) == [E0 EXCEPT !.refs = << n >>]
Sub(fs) == [E0 EXCEPT !.ors = << fs >>]
\* a clause: [txt, w]
\* bar: the clause's own text contains " | ";  refs: the names it mentions (their expansions may bring a " | " along)
Cl(t, w, bar, refs) == [txt |-> t, w |-> w, bar |-> bar, refs |-> refs]
Leafs(a, b, d) == { Cl(a \o " " \o b, << And2(F(a), F(b)) >>, FALSE, {}), Cl(a \o " | " \o b, << F(a), F(b) >>, TRUE, {}), Cl(a, << F(a) >>, FALSE, {}),
                    Cl("(" \o a \o " | " \o b \o ") " \o d, << And2(Sub(<< F(a), F(b) >>), F(d)) >>, TRUE, {}) }
WithRef(a, b, n) == { Cl(a \o " {" \o n \o "}", << And2(F(a), Ref(n)) >>, FALSE, {n}), Cl("{" \o n \o "} | " \o b, << Ref(n), F(b) >>, TRUE, {n}),
                      Cl(a \o " ({" \o n \o "} | " \o b \o ")", << And2(F(a), Sub(<< Ref(n), F(b) >>)) >>, TRUE, {n}) }
DefC == Leafs("x~", "P1", "+pj1")
DefB == Leafs("-", "#ar1", "!+pj1") \cup WithRef("'alpha'", "@cx1", "qc")
DefA == Leafs("o", "f=b", "due:*") \cup WithRef("!f=b", "n:>5", "qb")
        \cup { Cl("{qb} {qc}", << And2(Ref("qb"), Ref("qc")) >>, FALSE, {"qb", "qc"}), Cl("{qb} | {qc}", << Ref("qb"), Ref("qc") >>, TRUE, {"qb", "qc"}) }
\* the page's first line: WHERE clause with optional S / O / G around it
Heads == { << "W ", "" >>, << "S note W ", " O priority G file" >>, << "W ", " G file O alpha" >>, << "S count(note) W ", " G type" >> }
Uses == { << "", "{qa}", << Ref("qa") >> >>,
          << "", "^240116:240309 {qa}", << And2(F("^240116:240309"), Ref("qa")) >> >>,
          << "", "{qa} !'alpha'", << And2(Ref("qa"), F("!'alpha'")) >> >>,
          << "", "'alpha' | {qa}", << F("'alpha'"), Ref("qa") >> >>,
          << "", "(f=a {qa}) | [[b]]", << Sub(<< And2(F("f=a"), Ref("qa")) >>), F("[[b]]") >> >>,
          << "", "+pj1 {qc} | {qb}", << And2(F("+pj1"), Ref("qc")), Ref("qb") >> >> }
Cases == { [files |-> [qa |-> h[1] \o a.txt \o h[2], qb |-> "W " \o b.txt \o " G none", qc |-> h[1] \o cc.txt \o h[2]],
            txt |-> "W " \o u[2],
            exp |-> Result(U0, SubstOr(u[3], [qa |-> a.w, qb |-> b.w, qc |-> cc.w], 4)),
            \* what the recorded deviation (textual paste, kinds / priorities pooling) would give - for classification only
            asbuilt |-> LET barC == cc.bar
                            barB == b.bar \/ ("qc" \in b.refs /\ barC)
                            barA == a.bar \/ ("qb" \in a.refs /\ barB) \/ ("qc" \in a.refs /\ barC)
                        IN Result(U0, SubstOrB(u[3], [qa |-> a.w, qb |-> b.w, qc |-> cc.w], [qa |-> barA, qb |-> barB, qc |-> barC], 4))]
           : a \in DefA, b \in DefB, cc \in DefC, h \in Heads, u \in Uses }
Init == c \in Cases
Next == UNCHANGED c
Spec == Init /\ [][Next]_c
EmitCase == PrintT(ToJson(c))
\* design-level: the law of the property on every case (the reference as a unit)
Law == \A k \in DOMAIN U0 : \A a \in DefA, b \in DefB, cc \in DefC :
          RefLaw(U0, U0[k], F("'alpha'"), "qa", [qa |-> a.w, qb |-> b.w, qc |-> cc.w], 4)
=============================================================================
