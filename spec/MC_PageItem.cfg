SPECIFICATION ItSpec
INVARIANT Refines
INVARIANT PrefixLookalikesInert
INVARIANT RoundTrip
INVARIANT NonItemsNeverNotes
INVARIANT EmitPage
CHECK_DEADLOCK FALSE
