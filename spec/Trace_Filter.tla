---------------------------- MODULE Trace_Filter ----------------------------
(* Batch validation of recorded queries against Filter.tla.                  *)
(*   ZV_UNIV : NDJSON, one universe per line  [notes : <<note,...>>]          *)
(*   ZV_TRACE: NDJSON, one query per line     [id, u (universe #), where, obs : <<zid,...>>] *)
(* For each record TLC evaluates Result(U, where) and prints the ZIDs that    *)
(* are missing from / extra in the observed result.                           *)
EXTENDS Filter, Json, IOUtils
VARIABLES tid, phase
Univ == ndJsonDeserialize(IOEnv.ZV_UNIV)
Recs == ndJsonDeserialize(IOEnv.ZV_TRACE)
Verdict(r) == LET exp == Result(Univ[r.u].notes, r.where)
                  obs == Range(r.obs)
              IN << "RES", r.id, exp \ obs, obs \ exp >>
TInit == tid \in DOMAIN Recs /\ phase = 0
TNext == phase = 0 /\ phase' = 1 /\ UNCHANGED tid /\ PrintT(ToJson(Verdict(Recs[tid])))
TraceSpec == TInit /\ [][TNext]_<<tid, phase>>
=============================================================================
