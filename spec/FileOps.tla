------------------------------- MODULE FileOps -------------------------------
(***************************************************************************)
(* Line-level file surgery (C10 `note move`, C14 `file rename`).           *)
(*                                                                         *)
(* A file is a sequence of text lines (the last element "" stands for the  *)
(* final newline).  `note move` removes exactly the lines of one note from *)
(* its source page and inserts the note, once, as one block somewhere in   *)
(* the destination; every other line of both files keeps its text and      *)
(* relative order.  Where the block lands is not specified; it may be      *)
(* separated from its surroundings by an added blank line.                 *)
(***************************************************************************)
EXTENDS Naturals, Sequences, FiniteSets, TLC

Without(s, a, b) == SubSeq(s, 1, a - 1) \o SubSeq(s, b + 1, Len(s))       \* s minus lines a..b
Blank == ""
OptBlank == { << >>, << Blank >> }

\* dest2 is dest with ONE block inserted: [blank] first cont... [blank], the continuation lines being the note's own
InsertedOnce(dest, dest2, cont) ==
  \E i \in 0..Len(dest), pre \in OptBlank, post \in OptBlank :
     LET k == Len(pre) + 1 + Len(cont) + Len(post) IN
     /\ Len(dest2) = Len(dest) + k
     /\ SubSeq(dest2, 1, i) = SubSeq(dest, 1, i)
     /\ SubSeq(dest2, i + k + 1, Len(dest2)) = SubSeq(dest, i + 1, Len(dest))
     /\ SubSeq(dest2, i + 1, i + Len(pre)) = pre
     /\ SubSeq(dest2, i + Len(pre) + 2, i + Len(pre) + 1 + Len(cont)) = cont
     /\ SubSeq(dest2, i + k - Len(post) + 1, i + k) = post
\* the first line of the inserted block (for the compile-level clauses)
\* a file that does not end in a newline gets one before anything is appended: "...X" is read as "...X", ""
Closed(f) == IF f # << >> /\ f[Len(f)] # "" THEN Append(f, "") ELSE f

\* the notes of a page as the compiler reports them: [zid, kind, prio, body, tags : set of <<ty, name>>, props : set of <<k, v>>]
ByZid(notes, z) == { n \in notes : n.zid = z }
MoveClauses(r) ==
  \* r == [src, dest (<< >> if the page did not exist), src2, dest2 : Seq(line), a, b : the note's lines in src,
  \*       zid, marker ("" | "x" | "~"), nsrc, ndest, nsrc2, ndest2 : sets of compiled notes, ok2 : both pages compile]
  \* r.same: the destination is the note's own page - then `dest` is the page without the note's lines
  LET cont  == SubSeq(r.src, r.a + 1, r.b)
      old   == CHOOSE n \in r.nsrc : n.zid = r.zid
      moved == ByZid(r.ndest2, r.zid)
      dest0 == IF r.same THEN Without(r.src, r.a, r.b) ELSE Closed(r.dest)
      ndest0 == IF r.same THEN r.nsrc \ {old} ELSE r.ndest
  IN { c \in {"source-lines", "dest-lines", "pages-compile", "other-notes", "moved-once", "moved-kind", "moved-text", "moved-metadata"} :
       CASE c = "source-lines"   -> ~r.same /\ r.src2 # Without(r.src, r.a, r.b)
         [] c = "dest-lines"     -> ~InsertedOnce(dest0, r.dest2, cont)
         [] c = "pages-compile"  -> ~r.ok2
         [] c = "other-notes"    -> r.ok2 /\ ~( (r.same \/ r.nsrc2 = r.nsrc \ {old}) /\ r.ndest2 \ moved = ndest0 )
         [] c = "moved-once"     -> r.ok2 /\ ~( Cardinality(moved) = 1 /\ (r.same \/ ByZid(r.nsrc2, r.zid) = {}) )
         [] c = "moved-kind"     -> r.ok2 /\ \E m \in moved : m.kind # (IF r.marker = "" THEN old.kind ELSE r.marker)
         [] c = "moved-text"     -> r.ok2 /\ \E m \in moved : ~( old.words \subseteq m.words /\ m.contLines = old.contLines )
         [] c = "moved-metadata" -> r.ok2 /\ \E m \in moved : ~( old.tags \subseteq m.tags /\ old.props \subseteq m.props ) }

---------------------------------------------------------------------------
(* `file rename A B` (C14).  A file is a sequence of tokens: text chunks and page links [target, anchor].      *)
(* Renaming retargets exactly the links whose target IS A (with or without anchor); every other token -       *)
(* including links to pages whose names merely contain, extend or end with A - keeps its text.                  *)
LinkTok(t, a) == [k |-> "link", target |-> t, anchor |-> a]
TextTok(t)    == [k |-> "text", txt |-> t]
RenderTok(tok) == IF tok.k = "text" THEN tok.txt
                  ELSE "[[" \o tok.target \o (IF tok.anchor = "" THEN "" ELSE "#" \o tok.anchor) \o "]]"
RECURSIVE RenderToks(_)
RenderToks(ts) == IF ts = << >> THEN "" ELSE IF Len(ts) = 1 THEN RenderTok(ts[1]) ELSE RenderTok(ts[1]) \o " " \o RenderToks(Tail(ts))
RenameTok(tok, A, B) == IF tok.k = "link" /\ tok.target = A THEN [tok EXCEPT !.target = B] ELSE tok
RenameToks(ts, A, B) == [i \in DOMAIN ts |-> RenameTok(ts[i], A, B)]

---------------------------------------------------------------------------
(* Template initialisation (C16).  fs : [path -> text] (a missing key = no file).  A configuration is an ORDERED     *)
(* sequence of patterns; a pattern knows which paths it matches and what it captures (Matches / Captures are given   *)
(* per model).  NoClobber, FirstMatchWins and Idempotent are what the property states.                                *)
FirstMatch(patterns, path, Matches(_, _)) ==
  LET idx == { i \in DOMAIN patterns : Matches(patterns[i], path) } IN
  IF idx = {} THEN 0 ELSE CHOOSE i \in idx : \A j \in idx : i <= j
\* the content of `path` after `template init path` ("" = the file does not exist)
InitResult(old, overwrite, patterns, path, explicit, Matches(_, _), Render(_, _)) ==
  IF old # "" /\ ~overwrite THEN old
  ELSE LET m == FirstMatch(patterns, path, Matches) IN
       IF m # 0 THEN Render(patterns[m], path)
       ELSE IF explicit # "" THEN Render(explicit, path)
       ELSE old

---------------------------------------------------------------------------
(* Saved-query pages (.zoq).  A page is a sequence of lines; a line is [cls, txt] with cls one of                       *)
(*   "hdr"  (a header line: starts with "#" and is not the stats line - the first one holds the query)                 *)
(*   "bare" (the header line "#"),  "stats" (`# SAVED QUERY GENERATED ON ...`),  "other" (anything else)               *)
(* and eh = the text ends in "#".  Refreshing keeps the header (the longest prefix of header lines), separates it from the stats line by one bare      *)
(* line, and replaces everything below by a blank line and the current results: results never accumulate, the header   *)
(* never grows, a refreshed page refreshes to itself.                                                                   *)
IsHdrLine(l) == l.cls \in {"hdr", "bare"}
ZoqHeaderLen(f) == IF \E i \in DOMAIN f : ~IsHdrLine(f[i])
                   THEN (CHOOSE i \in DOMAIN f : ~IsHdrLine(f[i]) /\ \A j \in 1..(i - 1) : IsHdrLine(f[j])) - 1
                   ELSE Len(f)
ZoqHeader(f) == SubSeq(f, 1, ZoqHeaderLen(f))
BareLine == [cls |-> "bare", txt |-> "#", eh |-> TRUE]
ZoqRefresh(f, stats, results) ==
  LET h == ZoqHeader(f)
      \* as built: any header line ending in "#" counts as the separator (not only the bare "#")
      sep == IF h # << >> /\ h[Len(h)].eh THEN << >> ELSE << BareLine >>
  IN h \o sep \o << stats, [cls |-> "other", txt |-> "", eh |-> FALSE] >> \o results
=============================================================================
