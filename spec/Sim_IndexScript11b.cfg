SPECIFICATION Script11bSpec
CONSTANTS
  Pages = {1, 2}
  MaxNotes = 2
  MaxDay = 3
  MaxSteps = 12
  MaxUid = 8
  MaxIdle = 2
  Kinds <- KindsAll
  Feature <- FeatEdit
INVARIANT Agreement
INVARIANT AllZid
INVARIANT UniqueZid
INVARIANT ZidsBelowCounter
INVARIANT RebuildEquivalence
INVARIANT NoGhostPages
INVARIANT GhostAgrees
INVARIANT BrokenOnlyIfWhitelisted
PROPERTY Idempotent
PROPERTY OnlyZidInsertions
PROPERTY StampIff
PROPERTY CountersMonotone
CHECK_DEADLOCK FALSE
