---------------------------- MODULE MC_ZidRace ----------------------------
(* Interleavings of allocations on several dates with manager re-creation  *)
(* and lost allocations, for the real alphabet, started at every           *)
(* interesting point of the chain (fresh date, around the carries, around  *)
(* zz -> 000, at the very end) and bounded by the number of calls.         *)
EXTENDS Zid
CONSTANT MaxCalls
VARIABLE calls
Starts == { Unset, <<0,50>>, <<8,50>>, <<50,49>>, <<50,50>>, <<0,0,0>>, <<0,50,50>>, <<50,50,49>>, <<50,50,50>>, Exhausted }
InitFromRace == /\ nextIds \in [Dates -> Starts]
                /\ burntCnt = [d \in Dates |-> IF nextIds[d] = Unset THEN 0
                                               ELSE IF nextIds[d] = Exhausted THEN Total ELSE Rank(nextIds[d])]
                /\ last = NoAlloc /\ proc = 0
RInit == InitFromRace /\ calls = 0
Step == calls < MaxCalls /\ calls' = calls + 1
RAlloc(d)      == Step /\ Alloc(d)
RAllocFails(d) == Step /\ AllocFails(d)
RAllocLost(d)  == Step /\ AllocLost(d)
RRestart       == Step /\ Restart
RNext == \/ \E d \in Dates : RAlloc(d) \/ RAllocFails(d) \/ RAllocLost(d)
         \/ RRestart
RaceSpec == RInit /\ [][RNext]_<<vars, calls>>
=============================================================================
