-------------------------------- MODULE Bus --------------------------------
(***************************************************************************)
(* The message bus of zorg and the `zorg edit` loop, at the grain of one    *)
(* handled message per action and with every external effect of a message   *)
(* listed in `out` (the part the conformance harness observes).             *)
(*                                                                         *)
(*   zorg edit PATHS   queue = << Edit >>     (db reindex: << Reindex >>,     *)
(*                                            db create: << Create >>)       *)
(*   Edit      refresh the .zoq pages among the arguments, run the editor, then *)
(*             EditorClosed                                                  *)
(*   Closed    handler 1: the keep-alive file asks for another editor        *)
(*             session (same arguments when the file is empty, the files     *)
(*             named in it otherwise) - registered as a LAST message and the *)
(*             file is removed; handler 2: a plain ReindexDB command         *)
(*   Reindex   every page whose text differs from what was last indexed is   *)
(*             compiled and committed; a page that got new ZIDs / new stamps *)
(*             carries write-back events (Mod before New) which the bus      *)
(*             collects page by page; a broken page aborts the process       *)
(*   Mod, New  write-back of stamps / ZIDs into the page; the hash map       *)
(*             vouches for the page only once nothing is pending for it      *)
(*                                                                         *)
(* Queue discipline (messagebus._handle): the queue is sorted - events       *)
(* before commands, stable - before every pop; new messages are appended.    *)
(* What the discipline is for: the editor is never started again while a     *)
(* write-back is pending (the user would be typing into a page that zorg is  *)
(* about to rewrite from a stale copy), and every editor session is indexed  *)
(* exactly once before the next one starts.                                  *)
(***************************************************************************)
EXTENDS Naturals, Sequences, FiniteSets, TLC

CONSTANTS PageSeq,        \* the pages, in the order zorg walks them (sorted by file name)
          CliPaths,       \* the PATHS of `zorg edit PATHS`
          KaPaths,        \* what a user may write into the keep-alive file: set of [paths, focus]
          ZoqFiles,       \* the paths that are saved-query pages (refreshed before the editor starts)
          MaxSess,        \* editor sessions after which the user stops asking for more
          MaxProc         \* `zorg edit` invocations

VARIABLES queue,          \* pending messages
          need,           \* per page: text differs from what the hash map vouches for (apart from the unparsable
                          \* line) / stamp pending / ZID pending / carries the unparsable line
          ka,             \* the keep-alive file
          running,        \* a zorg process exists
          aborted,        \* ... and has died of an exception
          sess, proc,     \* counters (bounds only)
          vims,           \* editor sessions of this process
          reidx,          \* reindex commands handled since the last editor session
          asked,          \* the last Closed event found a keep-alive file
          offl,           \* the user has edited pages outside zorg since the last process
          wiped,          \* a refused `db create` has left an empty index behind (nothing is specified from there on)
          out             \* external effects of the last step, in order

vars == << queue, need, ka, running, aborted, sess, proc, vims, reidx, asked, offl, wiped, out >>

PageSet == { PageSeq[i] : i \in DOMAIN PageSeq }
EditKinds == {"none", "plain", "mod", "new", "both", "break", "fix"}
Clean == [ch |-> FALSE, mod |-> FALSE, new |-> 0, broken |-> FALSE]      \* new: notes without a ZID
NoKa == [st |-> "absent", paths |-> <<>>, focus |-> ""]
KaChoices == {NoKa, [st |-> "empty", paths |-> <<>>, focus |-> ""]}
             \cup { [st |-> "paths", paths |-> k.paths, focus |-> k.focus] : k \in KaPaths }

IsEvent(m) == m.k \in {"Closed", "Mod", "New"}
IsCommand(m) == m.k \in {"Edit", "Reindex", "Create"}
Sorted(q) == SelectSeq(q, IsEvent) \o SelectSeq(q, IsCommand)      \* sorted(queue, key=is command), stable
Msg == Head(Sorted(queue))
Rest == Tail(Sorted(queue))
Handling(k) == running /\ queue # <<>> /\ Msg.k = k

RECURSIVE Flat(_)
Flat(ss) == IF ss = <<>> THEN <<>> ELSE Head(ss) \o Flat(Tail(ss))
Map(f(_), s) == [i \in DOMAIN s |-> f(s[i])]

\* what an edit of kind e does to a page as the next reindex will see it
Apply(e, n) ==
  CASE e = "none"  -> n
    [] e = "plain" -> [n EXCEPT !.ch = TRUE]
    [] e = "mod"   -> [n EXCEPT !.ch = TRUE, !.mod = TRUE]
    [] e = "new"   -> [n EXCEPT !.ch = TRUE, !.new = @ + 1]
    [] e = "both"  -> [n EXCEPT !.ch = TRUE, !.mod = TRUE, !.new = @ + 1]
    [] e = "break" -> [n EXCEPT !.broken = TRUE]       \* an unparsable line is appended ...
    [] e = "fix"   -> [n EXCEPT !.broken = FALSE]      \* ... and removed: the page is textually what it was before
EditOK(e, n) == /\ e = "fix" => n.broken
                /\ n.broken => e \in {"none", "fix"}

Init == /\ queue = <<>> /\ need = [p \in PageSet |-> Clean] /\ ka = NoKa
        /\ running = FALSE /\ aborted = FALSE /\ sess = 0 /\ proc = 0 /\ vims = 0 /\ reidx = 0
        /\ asked = FALSE /\ offl = FALSE /\ wiped = FALSE /\ out = <<>>

\* the three commands that go through the bus: `zorg edit PATHS`, `zorg db reindex`, `zorg db create`.
\* Opening the database commits its schema; `db create` deletes the database file first.
StartKinds == {"edit", "reindex", "create"}
FirstMsg(kind) == CASE kind = "edit" -> [k |-> "Edit", paths |-> CliPaths, focus |-> ""]
                    [] kind = "reindex" -> [k |-> "Reindex"]
                    [] kind = "create" -> [k |-> "Create"]
Start(kind) ==
         /\ ~running /\ ~wiped /\ proc < MaxProc
         /\ running' = TRUE /\ aborted' = FALSE /\ proc' = proc + 1 /\ vims' = 0 /\ reidx' = 0 /\ asked' = FALSE
         /\ offl' = FALSE
         /\ queue' = << FirstMsg(kind) >>
         /\ out' = << <<"start", kind>> >> \o (IF kind = "create" THEN << <<"unlink", "db">> >> ELSE <<>>) \o << <<"commit", "db">> >>
         /\ UNCHANGED << need, ka, sess, wiped >>

\* between two processes the user may edit pages with any other tool
OfflineEdit ==
  /\ ~running /\ ~wiped /\ ~offl /\ proc < MaxProc
  /\ \E ed \in [PageSet -> EditKinds] :
       /\ \A p \in PageSet : EditOK(ed[p], need[p])
       /\ \E p \in PageSet : ed[p] # "none"
       /\ need' = [p \in PageSet |-> Apply(ed[p], need[p])]
       /\ out' = << <<"user", ed>> >>
  /\ offl' = TRUE
  /\ UNCHANGED << queue, ka, running, aborted, sess, proc, vims, reidx, asked, wiped >>

\* saved-query pages among the arguments are refreshed (rewritten from the index) before the editor starts
Refreshed(paths) == SelectSeq(paths, LAMBDA x : x \in ZoqFiles)

\* the editor runs; what the user does in it is the environment's choice
HandleEdit ==
  /\ Handling("Edit")
  /\ \E ed \in [PageSet -> EditKinds], kc \in (IF sess + 1 >= MaxSess THEN {NoKa} ELSE KaChoices) :
       /\ \A p \in PageSet : EditOK(ed[p], need[p])
       /\ need' = [p \in PageSet |-> Apply(ed[p], need[p])]
       /\ ka' = kc
       /\ out' = [i \in DOMAIN Refreshed(Msg.paths) |-> <<"w", Refreshed(Msg.paths)[i]>>] \o << <<"vim", Msg.paths, Msg.focus, ed, kc>> >>
  /\ queue' = Rest \o << [k |-> "Closed", paths |-> Msg.paths, focus |-> Msg.focus] >>
  /\ sess' = sess + 1 /\ vims' = vims + 1 /\ reidx' = 0 /\ asked' = FALSE
  /\ UNCHANGED << running, aborted, proc, offl, wiped >>

\* EditorClosedEvent: check_keep_alive_file (a LAST message), then reindex_database_after_edit
HandleClosed ==
  /\ Handling("Closed")
  /\ LET again == ka.st # "absent"
         edit == [k |-> "Edit",
                  paths |-> IF ka.st = "empty" THEN Msg.paths ELSE ka.paths,
                  focus |-> IF ka.st = "empty" THEN Msg.focus ELSE ka.focus]
     IN /\ queue' = Rest \o << [k |-> "Reindex"] >> \o (IF again THEN << edit >> ELSE <<>>)
        /\ out' = IF again THEN << <<"unlink", "ka">> >> ELSE <<>>
        /\ asked' = again
  /\ ka' = NoKa
  /\ UNCHANGED << need, running, aborted, sess, proc, vims, reidx, offl, wiped >>

Differs(p) == need[p].ch \/ need[p].broken                  \* the text is not the one last vouched for
Changed == SelectSeq(PageSeq, LAMBDA p : Differs(p))
FirstBroken == IF \E i \in DOMAIN Changed : need[Changed[i]].broken
               THEN CHOOSE i \in DOMAIN Changed : need[Changed[i]].broken /\ \A j \in 1..(i - 1) : ~need[Changed[j]].broken
               ELSE 0
\* the page's old rows are removed and its new rows added (one counter write per new ZID) in ONE transaction, then the page
\* is committed.  (Before the repair of C13's removal-commits-halfway finding the removal committed after every property link
\* and every tag that became unused; runs of commits are still squashed here and in the recorded traces alike, so that
\* consecutive pages without new notes read "one or more commits".)
Commit == <<"commit", "db">>
RECURSIVE Squash(_)
Squash(s) == IF Len(s) <= 1 THEN s
             ELSE IF s[1] = Commit /\ s[2] = Commit THEN Squash(Tail(s)) ELSE << s[1] >> \o Squash(Tail(s))
PageEffects(p) == [i \in 1..need[p].new |-> <<"w", "ids">>] \o << Commit >>
PageEvents(p) == (IF need[p].mod THEN << [k |-> "Mod", p |-> p] >> ELSE <<>>)
                 \o (IF need[p].new > 0 THEN << [k |-> "New", p |-> p] >> ELSE <<>>)

HandleReindex ==
  /\ Handling("Reindex")
  /\ reidx' = reidx + 1
  /\ IF FirstBroken # 0
     THEN \* "Zorg file has errors!": the pages walked before it are committed, their write-backs are lost with the process
          /\ out' = Squash(Flat(Map(PageEffects, SubSeq(Changed, 1, FirstBroken - 1))))
          /\ queue' = <<>> /\ aborted' = TRUE
          /\ UNCHANGED need
     ELSE /\ out' = Squash(Flat(Map(PageEffects, Changed))) \o << <<"w", "hash">>, <<"w", "wl">>, Commit >>
          /\ queue' = Rest \o Flat(Map(PageEvents, Changed))
          /\ need' = [p \in PageSet |-> IF need[p].mod \/ need[p].new > 0 THEN need[p] ELSE Clean]
          /\ UNCHANGED aborted
  /\ UNCHANGED << ka, running, sess, proc, vims, asked, offl, wiped >>

\* `db create`: every page is walked in file-name order and added in ONE transaction; nothing is ever stamped (there is
\* no old index to compare with); an unparsable page stops the run after the database file has been deleted
AllPages == PageSeq
FirstBrokenAll == IF \E i \in DOMAIN AllPages : need[AllPages[i]].broken
                  THEN CHOOSE i \in DOMAIN AllPages : need[AllPages[i]].broken /\ \A j \in 1..(i - 1) : ~need[AllPages[j]].broken
                  ELSE 0
IdWrites(p) == [i \in 1..need[p].new |-> <<"w", "ids">>]
NewEvent(p) == IF need[p].new > 0 THEN << [k |-> "New", p |-> p] >> ELSE <<>>
HandleCreate ==
  /\ Handling("Create")
  /\ IF FirstBrokenAll # 0
     THEN /\ out' = Flat(Map(IdWrites, SubSeq(AllPages, 1, FirstBrokenAll - 1)))  \* (an unparsable page is never given ZIDs)
          /\ queue' = <<>> /\ aborted' = TRUE /\ wiped' = TRUE
          /\ UNCHANGED need
     ELSE /\ out' = Flat(Map(IdWrites, AllPages)) \o << <<"w", "hash">>, <<"w", "wl">>, <<"commit", "db">> >>
          /\ queue' = Rest \o Flat(Map(NewEvent, AllPages))
          /\ need' = [p \in PageSet |-> IF need[p].new > 0 THEN [need[p] EXCEPT !.ch = TRUE, !.mod = FALSE] ELSE Clean]
          /\ UNCHANGED << aborted, wiped >>
  /\ UNCHANGED << ka, running, sess, proc, vims, reidx, asked, offl >>

\* write-back of modify dates: the hash map vouches for the page only if no ZID is pending
HandleMod ==
  /\ Handling("Mod")
  /\ LET p == Msg.p IN
       /\ out' = << <<"w", p>> >> \o (IF need[p].new > 0 THEN <<>> ELSE << <<"w", "hash">> >>)
       /\ need' = [need EXCEPT ![p] = IF need[p].new > 0 THEN [need[p] EXCEPT !.mod = FALSE] ELSE Clean]
  /\ queue' = Rest
  /\ UNCHANGED << ka, running, aborted, sess, proc, vims, reidx, asked, offl, wiped >>

HandleNew ==
  /\ Handling("New")
  /\ LET p == Msg.p IN
       /\ out' = << <<"w", p>>, <<"w", "hash">> >>
       /\ need' = [need EXCEPT ![p] = IF need[p].mod THEN [need[p] EXCEPT !.new = 0] ELSE Clean]
  /\ queue' = Rest
  /\ UNCHANGED << ka, running, aborted, sess, proc, vims, reidx, asked, offl, wiped >>

Exit == /\ running /\ queue = <<>>
        /\ running' = FALSE
        /\ out' = << <<"exit", IF aborted THEN "error" ELSE "ok">> >>
        /\ UNCHANGED << queue, need, ka, aborted, sess, proc, vims, reidx, asked, offl, wiped >>

Next == \/ \E kind \in StartKinds : Start(kind)
        \/ OfflineEdit \/ HandleEdit \/ HandleClosed \/ HandleReindex \/ HandleCreate \/ HandleMod \/ HandleNew \/ Exit
Spec == Init /\ [][Next]_vars /\ WF_vars(Next)

-----------------------------------------------------------------------------
MsgKinds == {"Edit", "Closed", "Reindex", "Create", "Mod", "New"}
TypeOK == /\ \A i \in DOMAIN queue : queue[i].k \in MsgKinds
          /\ need \in [PageSet -> [ch : BOOLEAN, mod : BOOLEAN, new : Nat, broken : BOOLEAN]]
          /\ ka \in KaChoices /\ running \in BOOLEAN /\ aborted \in BOOLEAN

Count(k) == Cardinality({ i \in DOMAIN queue : queue[i].k = k })
NothingPending == \A p \in PageSet : ~Differs(p)

\* the editor is started again only when every page is indexed and written back,
\* after exactly one reindex of the previous session
QuiescentEditor == (Handling("Edit") /\ vims > 0) => (NothingPending /\ reidx = 1)
\* ... and only because the user asked for it
EditOnlyIfAsked == (Handling("Edit") /\ vims > 0) => asked
AtMostOneEdit == Count("Edit") <= 1 /\ Count("Closed") <= 1 /\ Count("Reindex") <= 1
\* the keep-alive file lives from the end of an editor session to the handling of its Closed event
KaConsumed == ka.st # "absent" => Count("Closed") = 1
\* a write-back in the queue is one the page still needs, at most one of each kind, stamps first
WriteBacksPending ==
  /\ \A i \in DOMAIN queue : (queue[i].k = "Mod" => need[queue[i].p].mod) /\ (queue[i].k = "New" => need[queue[i].p].new > 0)
  /\ \A i, j \in DOMAIN queue : (i < j /\ queue[i].k \in {"Mod", "New"} /\ queue[j].k \in {"Mod", "New"} /\ queue[i].p = queue[j].p)
                                 => (queue[i].k = "Mod" /\ queue[j].k = "New")
\* an unparsable page stops the process and nothing else
AbortOnlyIfBroken == ((running /\ aborted) => \E p \in PageSet : need[p].broken) /\ (wiped => aborted)
\* a process that ends normally leaves nothing behind
CleanExit == (running /\ queue = <<>> /\ ~aborted) => NothingPending
\* events are always handled before commands
EventsFirst == [][ (\E i \in DOMAIN queue : IsEvent(queue[i])) /\ queue' # queue /\ running /\ running'
                   => Len(SelectSeq(queue', IsEvent)) + 1 >= Len(SelectSeq(queue, IsEvent)) /\ IsEvent(Msg) ]_vars
Terminates == <>[](~running /\ (proc = MaxProc \/ wiped))
=============================================================================
