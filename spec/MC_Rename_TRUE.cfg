SPECIFICATION Spec
CONSTANT Deep = TRUE
INVARIANT EmitCase
CHECK_DEADLOCK FALSE
