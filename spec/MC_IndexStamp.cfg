SPECIFICATION SpecIndexed
CONSTANTS
  Pages = {1, 2}
  MaxNotes = 2
  MaxDay = 3
  MaxSteps = 6
  MaxUid = 4
  Kinds <- KindsSmall
  Feature <- FeatStamp
INVARIANT Agreement
INVARIANT AllZid
INVARIANT UniqueZid
INVARIANT ZidsBelowCounter
INVARIANT RebuildEquivalence
INVARIANT NoGhostPages
INVARIANT GhostAgrees
INVARIANT BrokenOnlyIfWhitelisted
PROPERTY Idempotent
PROPERTY OnlyZidInsertions
PROPERTY StampIff
PROPERTY CountersMonotone
CHECK_DEADLOCK FALSE
