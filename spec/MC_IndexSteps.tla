---- MODULE MC_IndexSteps ----
EXTENDS IndexSteps
====
