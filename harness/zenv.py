"""Runs the real zorg (imported from /repo's working tree through /venv's editable
install) on scratch note directories: one ZEnv = one notes directory + config.

A zorg "process" is one call of main(argv); between calls every in-memory
survivor (the cached SQLAlchemy engine) is dropped so that only files persist,
as after a real exit.  The calendar day is a process-wide freezegun clock."""
from __future__ import annotations

import contextlib
import datetime as dt
import io
import json
import os
import shutil
import sqlite3
import sys
import tempfile
from pathlib import Path
from typing import Any, Optional

from freezegun import freeze_time

from . import tlc as _tlc

_FREEZER = None
_FROZEN = None


def set_day(day: dt.date | str, hhmm: str = "12:00:00") -> None:
    """Moves the process-wide frozen clock to `day`."""
    global _FREEZER, _FROZEN
    if isinstance(day, dt.date):
        day = day.isoformat()
    stamp = f"{day}T{hhmm}"
    if _FREEZER is None:
        _FREEZER = freeze_time(stamp)
        _FROZEN = _FREEZER.start()
    else:
        _FROZEN.move_to(stamp)


def reset_process_state() -> None:
    """What a process exit would drop: cached engines (and their connections)."""
    from zorg.storage.sql import _engine
    try:
        _engine.create_cached_engine.cache_clear()
    except Exception:
        pass
    import gc
    gc.collect()
    try:
        from zorg.shared import common as c
        if hasattr(c.zprint, "_call_count"):
            delattr(c.zprint, "_call_count")
    except Exception:
        pass


class RunResult:
    def __init__(self, rc, out, err, exc):
        self.rc, self.out, self.err, self.exc = rc, out, err, exc

    @property
    def ok(self) -> bool:
        return self.exc is None and self.rc == 0

    def __repr__(self):
        return f"RunResult(rc={self.rc}, exc={self.exc!r}, out={self.out[-200:]!r})"


class ZEnv:
    def __init__(self, cfg: Optional[dict] = None):
        self.root = Path(tempfile.mkdtemp(prefix="zd-", dir=_tlc.scratch_root()))
        self.zdir = self.root / "org"
        self.zdir.mkdir()
        self.cfg_path = self.root / "zorg.yml"
        self.cfg: dict = {}
        self.set_cfg(cfg or {})

    # ------------------------------------------------------------ config/files
    def set_cfg(self, cfg: dict) -> None:
        self.cfg = dict(cfg)
        self.cfg.setdefault("keep_alive_file", str(self.root / "keep_alive"))
        self.cfg_path.write_text(json.dumps(self.cfg))   # JSON is YAML

    def path(self, rel: str) -> Path:
        return self.zdir / rel

    def write(self, rel: str, text: str) -> None:
        p = self.zdir / rel
        p.parent.mkdir(parents=True, exist_ok=True)
        p.write_text(text)

    def read(self, rel: str) -> str:
        return (self.zdir / rel).read_text()

    def exists(self, rel: str) -> bool:
        return (self.zdir / rel).exists()

    def pages(self) -> dict[str, str]:
        """All user files (not .zorg) as {relative path: text}."""
        out = {}
        for p in sorted(self.zdir.rglob("*")):
            if p.is_file() and ".zorg" not in p.relative_to(self.zdir).parts:
                out[str(p.relative_to(self.zdir))] = p.read_text(errors="replace")
        return out

    def cleanup(self) -> None:
        shutil.rmtree(self.root, ignore_errors=True)

    def snapshot(self) -> Path:
        d = Path(tempfile.mkdtemp(prefix="snap-", dir=self.root.parent))
        shutil.copytree(self.zdir, d / "org", symlinks=True)
        return d

    def restore(self, snap: Path) -> None:
        reset_process_state()
        shutil.rmtree(self.zdir)
        shutil.copytree(snap / "org", self.zdir, symlinks=True)

    # ---------------------------------------------------------------- running
    def main(self, *args: str, stdin: str = "") -> RunResult:
        """One zorg process: main(['zorg', '-c', cfg, '--log=null', '--dir', zdir, *args])."""
        from zorg.app.__main__ import main as zorg_main
        reset_process_state()
        argv = ["zorg", "-c", str(self.cfg_path), "--log=null", "--dir", str(self.zdir), *args]
        out, err = io.StringIO(), io.StringIO()
        rc, exc = None, None
        old_stdin = sys.stdin
        sys.stdin = io.StringIO(stdin)
        try:
            with contextlib.redirect_stdout(out), contextlib.redirect_stderr(err):
                try:
                    rc = zorg_main(argv)
                except SystemExit as e:
                    rc = e.code if isinstance(e.code, int) else 1
                except Exception as e:  # noqa: BLE001 - reported, never swallowed
                    exc = e
        finally:
            sys.stdin = old_stdin
            reset_process_state()
        return RunResult(rc, out.getvalue(), err.getvalue(), exc)

    def db_create(self, force: bool = False) -> RunResult:
        return self.main("db", "create", *(["-f"] if force else []))

    def reindex(self, *paths: str) -> RunResult:
        return self.main("db", "reindex", *paths)

    def compile(self, rel: str):
        from zorg.service.compiler import walk_zorg_page
        return walk_zorg_page(self.zdir, Path(rel))

    # ---------------------------------------------------------------- stores
    @property
    def db_path(self) -> Path:
        return self.zdir / ".zorg" / "zorg.db"

    def hashes(self) -> dict:
        p = self.zdir / ".zorg" / "file_hash.json"
        return json.loads(p.read_text()) if p.exists() else {}

    def next_ids(self) -> dict:
        p = self.zdir / ".zorg" / "next_ids.json"
        return json.loads(p.read_text()) if p.exists() else {}

    def whitelist(self) -> list[str]:
        p = self.zdir / ".zorg" / "error_file_whitelist.txt"
        return [x for x in p.read_text().split("\n") if x] if p.exists() else []

    def db_notes(self) -> list[dict]:
        """Raw rows of the index, read with sqlite3 (never through zorg)."""
        return read_db_notes(self.db_path)


_TAG_TABLES = [("area", "areas"), ("context", "contexts"), ("person", "people"), ("project", "projects")]


def read_db_notes(db_path: Path) -> list[dict]:
    if not db_path.exists():
        return []
    con = sqlite3.connect(f"file:{db_path}?mode=ro", uri=True)
    con.row_factory = sqlite3.Row
    try:
        cur = con.cursor()
        tables = {r[0] for r in cur.execute("SELECT name FROM sqlite_master WHERE type='table'")}
        if "note" not in tables:
            return []
        notes = []
        for r in cur.execute("SELECT * FROM note ORDER BY page_path, line_no, id"):
            n = dict(r)
            nid = n["id"]
            c2 = con.cursor()
            for sing, plural in _TAG_TABLES:
                link = f"{sing}link"
                n[plural] = sorted(x[0] for x in c2.execute(
                    f"SELECT t.name FROM {sing} t JOIN {link} l ON l.{sing}_id = t.id WHERE l.note_id = ?", (nid,)))
            n["links"] = sorted(x[0] for x in c2.execute(
                "SELECT t.name FROM link t JOIN linklink l ON l.link_id = t.id WHERE l.note_id = ?", (nid,)))
            n["properties"] = {x[0]: x[1] for x in c2.execute(
                "SELECT p.name, l.value FROM property p JOIN propertylink l ON l.prop_id = p.id WHERE l.note_id = ?", (nid,))}
            notes.append(n)
        return notes
    finally:
        con.close()


def now() -> float:
    """Wall clock that ignores the frozen calendar (freezegun patches module-level aliases)."""
    import freezegun.api as fa
    return fa.real_perf_counter()
