"""Process-pool map over cases (the ANTLR runtime and SQLite work are CPU bound)."""
from __future__ import annotations

import multiprocessing as mp
import os
from typing import Callable, Iterable, Sequence

from . import tlc as _tlc

NPROC = int(os.environ.get("VERIF_JOBS", "0") or 0) or min(16, os.cpu_count() or 4)


def _call(args):
    fn, chunk = args
    return [fn(c) for c in chunk]


def pmap(fn: Callable, cases: Sequence, chunk: int = 0, procs: int = 0) -> list:
    """fn must be a module-level function; returns results in order."""
    cases = list(cases)
    procs = procs or NPROC
    if len(cases) <= 2 or procs <= 1:
        return [fn(c) for c in cases]
    _tlc.scratch_root()   # create before forking so workers share (and the parent removes) it
    if not chunk:
        chunk = max(1, min(64, len(cases) // (procs * 4) or 1))
    chunks = [(fn, cases[i:i + chunk]) for i in range(0, len(cases), chunk)]
    ctx = mp.get_context("fork")
    # a big parent heap (e.g. 100k abstract pages) makes every cyclic collection in the children walk - and thereby copy -
    # all of it: collect once, then park the parent's objects in the permanent generation for the lifetime of the pool
    import gc
    gc.collect()
    gc.freeze()
    try:
        with ctx.Pool(min(procs, len(chunks))) as pool:
            out = []
            for part in pool.imap(_call, chunks):
                out.extend(part)
    finally:
        gc.unfreeze()
    return out
