"""S->I replay of Index.tla behaviours on real notes directories.

A behaviour (from `tlc -simulate file=` of an MC_IndexSim configuration, or a path through the
dumped state graph) is executed step by step: user steps make the real pages look like the
specification's `files`; command steps run the real `zorg db create` / `db reindex`; after every
command the projected real stores are compared with the TLC successor state (up to ZID
renaming), and the properties' own statements are evaluated on the real stores as well
(recompile-vs-rows agreement, rebuild equivalence, idempotence of a second run)."""
from __future__ import annotations

import glob
import os
import re
import shutil
from pathlib import Path

from . import bind_index as bi
from . import par, tlaval, tlc, zenv

CMDS = {"create", "reindex", "reindexPaths", "refusedCreate", "refusedReindex"}
_NEEDED = ("files", "db", "last", "lastArg", "today", "wl")


def _parse_states(path: str) -> list:
    """[(action, {needed vars})] of one simulation trace file; only the variables the binding needs are parsed."""
    out = []
    act = "Init"
    block: list = []

    def flush():
        if not block:
            return
        text = "\n".join(block)
        st = {}
        for part in re.split(r"(?:^|\n)/\\ ", text):
            m = re.match(r"(\w+) = ", part)
            if m and m.group(1) in _NEEDED:
                st[m.group(1)] = tlaval.to_py(tlaval.parse(part[m.end():]))
        out.append((act, st))

    in_state = False
    for line in Path(path).read_text().splitlines():
        m = re.match(r"^\\\* <(\w+)", line)
        if m:
            act = m.group(1)
            continue
        if re.match(r"^STATE_\d+ ==", line):
            in_state = True
            block = []
            continue
        if in_state:
            if line.strip() == "":
                flush()
                in_state = False
                block = []
            else:
                block.append(line)
    if in_state:
        flush()
    return out


def _files_of(st) -> dict:
    """TLC prints [Pages -> page] with Pages = 1..n as a sequence."""
    f = st["files"]
    return {i + 1: f[i] for i in range(len(f))} if isinstance(f, list) else {int(k): v for k, v in f.items()}


def _db_of(st) -> dict:
    f = st["db"]
    return {i + 1: f[i] for i in range(len(f))} if isinstance(f, list) else {int(k): v for k, v in f.items()}


def simulate(module: str, cfg: str, num: int, depth: int, seed: int) -> tuple[list, "tlc.TlcResult"]:
    # TLC's simulator was once seen waiting forever for a worker that had died at start-up (main thread parked in
    # Simulator.simulate's queue.take, < 1 s of CPU after 20 min, machine under full load): a run that exceeds a generous
    # bound is killed and repeated - the seed makes the repetition the same run
    r = None
    for attempt in range(3):
        d = tlc.scratch_root() / f"sim-{cfg}-{seed}-{attempt}"
        d.mkdir(parents=True, exist_ok=True)
        r = tlc.run_tlc(module, cfg=cfg, simulate=f"file={d}/tr,num={num}", depth=depth, seed=seed, workers=1,
                        timeout=240 + 2 * num)
        if r.rc != 124:
            break
    files = sorted(glob.glob(f"{d}/tr*"))
    return files, r


# ------------------------------------------------------------------ one behaviour
def replay_behaviour(arg) -> dict:
    """Runs one behaviour on a fresh real directory. -> {"steps": n, "commands": n, "issues": [...], "sig": ...}"""
    path, opts = arg
    states = _parse_states(path) if isinstance(path, str) else path
    res = {"trace": os.path.basename(path) if isinstance(path, str) else "graph-path", "steps": 0, "commands": 0,
           "issues": [], "actions": [st.get("last", a) for a, st in states]}
    d = bi.Dir(opts.get("names"))
    try:
        _run(d, states, res, opts)
    except Exception as e:  # noqa: BLE001 - harness trouble is reported as such, never as a violation
        import traceback
        res["harness_error"] = traceback.format_exc()
    finally:
        d.cleanup()
    return res


def _issue(res, step, action, cat, detail):
    res["issues"].append({"step": step, "action": action, "cat": cat, "detail": detail})


def _bind_new_zids(d: bi.Dir, exp_files: dict, obs_files: dict, res, step, action) -> bool:
    """Extends the abstract->real ZID map by position; real ZIDs must be new and distinct."""
    used = set(d.zmap.values())
    for p, pg in exp_files.items():
        ob = obs_files.get(p)
        if isinstance(ob, str) or ob is None or len(ob["notes"]) != len(pg["notes"]):
            continue
        for n, o in zip(pg["notes"], ob["notes"]):
            z = tuple(n["zid"])
            if z and z not in d.zmap:
                if not o["zid"]:
                    continue                      # reported by the state diff
                if o["zid"] in used:
                    _issue(res, step, action, "zid.duplicate", {"page": p, "zid": o["zid"]})
                    return False
                d.zmap[z] = o["zid"]
                used.add(o["zid"])
    return True


def _run(d: bi.Dir, states: list, res: dict, opts: dict) -> None:
    env = d.env
    act0, st0 = states[0]
    pages = sorted(_files_of(st0))
    today = st0["today"]
    zenv.set_day(bi.day_date(today))
    # --- initial state: empty directory, or an indexed one produced by the real `db create`
    f0 = _files_of(st0)
    if any(pg["ex"] for pg in f0.values()):
        bare = {p: dict(pg, notes=[dict(n, zid=[], md=0) for n in pg["notes"]]) for p, pg in f0.items()}
        d.write_files(bare)
        r = env.db_create()
        res["commands"] += 1
        obs_f = d.project_files(pages)
        if not r.ok or not _bind_new_zids(d, f0, obs_f, res, 0, "setup-create"):
            _issue(res, 0, "setup-create", "create.failed", {"rc": r.rc, "out": r.out[-300:]})
            return
        if any(n["md"] for pg in f0.values() for n in pg["notes"]):
            # stamps of the initial state are typed in by hand (dated today: nothing gets re-stamped) and indexed
            d.write_files(f0)
            r = env.reindex()
            res["commands"] += 1
            obs_f = d.project_files(pages)
            if not r.ok:
                _issue(res, 0, "setup-reindex", "command.failed", {"rc": r.rc})
                return
        diffs = bi.diff_states(f0, _db_of(st0), obs_f, d.project_db(pages))
        if diffs:
            for cat, p, det in diffs:
                _issue(res, 0, "setup-create", cat + ".create", {"page": p, **det})
            return
    prev = st0
    for k, (act, st) in enumerate(states[1:], start=1):
        res["steps"] += 1
        last = st["last"]
        exp_f, exp_db = _files_of(st), _db_of(st)
        if last not in CMDS:
            if st["today"] != prev["today"]:
                zenv.set_day(bi.day_date(st["today"]))
            d.write_files(exp_f, only_changed_from=_files_of(prev))
            prev = st
            continue
        # ---------------- a command
        res["commands"] += 1
        paths = [str(env.path(d.names[p])) for p in sorted(st["lastArg"])] if last in ("reindexPaths", "refusedReindex") else []
        force = (last == "create" and st["lastArg"] == [0])

        def run_cmd():
            return env.db_create(force=force) if last in ("create", "refusedCreate") else env.reindex(*paths)

        if opts.get("crash") and not last.startswith("refused"):
            crash_enumeration(d, pages, run_cmd, res, k, last, opts)
        r = run_cmd()
        refused_expected = last.startswith("refused")
        if refused_expected and r.ok:
            _issue(res, k, last, "refusal.missing", {"note": "the command succeeded although a broken page is not whitelisted"})
            return
        if not refused_expected and not r.ok:
            _issue(res, k, last, "command.failed", {"rc": r.rc, "out": r.out[-400:], "err": r.err[-400:]})
            return
        obs_f = d.project_files(pages)
        if not _bind_new_zids(d, exp_f, obs_f, res, k, last):
            return
        obs_db = d.project_db(pages)
        diffs = bi.diff_states(exp_f, exp_db, obs_f, obs_db)
        for cat, p, det in diffs:
            _issue(res, k, last, f"{cat}.{last}", {"page": p, **det})
        # the fifth store: the error-file whitelist must be the specification's wl (after a refusal: unchanged)
        obs_wl = sorted(env.whitelist())
        exp_wl = sorted(d.names[p] for p in st["wl"])
        if obs_wl != exp_wl:
            _issue(res, k, last, f"whitelist.{last}", {"expected": exp_wl, "observed": obs_wl})
        # ---------------- the properties' own statements on the real stores
        if not refused_expected:
            if last in ("create", "reindex"):
                for f, what, det in bi.agreement_real(env):
                    _issue(res, k, last, f"agreement.{last}", {"file": f, "what": what, "detail": det})
            if opts.get("idempotence") and last in ("create", "reindex") and not diffs:
                t1, dump1 = env.pages(), bi.canonical_dump(env)
                r2 = env.reindex()
                if not r2.ok or env.pages() != t1 or bi.canonical_dump(env) != dump1:
                    _issue(res, k, last, f"idempotence.{last}",
                           {"rc": r2.rc, "files_changed": [f for f in t1 if env.pages().get(f) != t1[f]],
                            "rows_changed": bi.canonical_dump(env) != dump1})
                    return
            if opts.get("rebuild") and last == "reindex" and not diffs:
                issue = rebuild_equivalence(env)
                if issue:
                    _issue(res, k, last, "rebuild.reindex", issue)
        if diffs:
            return
        if last == "refusedCreate":
            # the index is gone but the real hash map still vouches for the pages: what follows is outside every
            # listed property (DESIGN.md, observations); the behaviour ends here
            res["truncated"] = "after refused create"
            return
        prev = st
    res["final_pages"] = len([p for p in pages if env.path(d.names[p]).exists()])


def _canon_real(d: bi.Dir, pages):
    return bi.canon_state(d.project_files(pages), d.project_db(pages), bi.real_zid_day)


def _dup_zids(d: bi.Dir, pages) -> list:
    seen, dup = {}, []
    for p, pg in d.project_files(pages).items():
        if isinstance(pg, str):
            continue
        for n in pg["notes"]:
            if n["zid"]:
                if n["zid"] in seen and seen[n["zid"]] != n["uid"]:
                    dup.append(n["zid"])
                seen[n["zid"]] = n["uid"]
    return dup


def crash_enumeration(d: bi.Dir, pages, run_cmd, res, step, action, opts) -> None:
    """C13 on the real code: the command is traced once uninterrupted (external effects e_0..e_K-1), then for every k it
    is killed before e_k (thorough: also with write e_k torn) and run again to completion; the rerun must succeed and
    end in the state of the uninterrupted run (up to ZID renaming), in agreement, with no ZID on two notes."""
    from .interpose import Interposer, SimulatedCrash
    env = d.env
    snap = env.snapshot()
    try:
        with Interposer(env.zdir) as ip:
            r0 = run_cmd()
        effects = list(ip.effects)
        if not r0.ok:
            return          # the uninterrupted command fails: reported by the ordinary replay
        good = _canon_real(d, pages)
        res.setdefault("effects", []).append([f"{e['kind']}:{e['target']}" for e in effects])
        points = [("before", k, 0.0) for k in range(len(effects))]
        if opts.get("torn"):
            for k, e in enumerate(effects):
                if e["kind"] == "write":
                    points += [("torn", k, 0.0), ("torn", k, 0.5), ("torn", k, 0.97)]
        # second-order points (opts["double"] = samples per first point): the rerun is killed as well, before one of its
        # own effects, and only the run after that is allowed to finish
        import random as _random
        rng2 = _random.Random(len(effects) * 7919 + step)
        if opts.get("double"):
            points += [("double", k, float(rng2.randrange(0, len(effects) + 2))) for k in range(len(effects))
                       for _ in range(opts["double"])]
        for mode, k, keep in points:
            env.restore(snap)
            crashed = False
            try:
                kw = {"crash_before": k} if mode in ("before", "double") else {"torn_at": k, "torn_keep": keep}
                with Interposer(env.zdir, **kw):
                    run_cmd()
            except SimulatedCrash:
                crashed = True
            zenv.reset_process_state()
            res["crash_points"] = res.get("crash_points", 0) + 1
            if not crashed:
                _issue(res, step, action, "crash.harness", {"point": [mode, k, keep], "note": "the injected crash did not fire"})
                continue
            where = {"point": mode, "effect_index": k, "effect": f"{effects[k]['kind']}:{effects[k]['target']}",
                     "keep": keep, "effects": [f"{e['kind']}:{e['target']}" for e in effects]}
            if mode == "double":
                try:
                    with Interposer(env.zdir, crash_before=int(keep)):
                        run_cmd()
                except SimulatedCrash:
                    res["second_crashes"] = res.get("second_crashes", 0) + 1
                zenv.reset_process_state()
                where["second_crash_before_effect_of_rerun"] = int(keep)
            r1 = run_cmd()
            if not r1.ok:
                _issue(res, step, action, f"crash.rerun-failed.{mode}", dict(where, rc=r1.rc))
                continue
            now = _canon_real(d, pages)
            if now != good:
                diff = [p for p in good[0] if good[0][p] != now[0][p]], [p for p in good[1] if good[1][p] != now[1][p]]
                _issue(res, step, action, f"crash.diverged.{mode}",
                       dict(where, pages_files_differ=diff[0], pages_index_differ=diff[1],
                            files={p: now[0][p] for p in diff[0]}, index={p: now[1][p] for p in diff[1]},
                            uninterrupted_files={p: good[0][p] for p in diff[0]},
                            uninterrupted_index={p: good[1][p] for p in diff[1]}))
                continue
            # (after an explicit-path run other pages may legitimately be stale: equality with the uninterrupted run decides)
            ag = bi.agreement_real(env) if action in ("create", "reindex") else []
            if ag:
                _issue(res, step, action, f"crash.disagree.{mode}", dict(where, agreement=ag[:3]))
            dz = _dup_zids(d, pages)
            if dz:
                _issue(res, step, action, f"crash.dupzid.{mode}", dict(where, zids=dz))
    finally:
        env.restore(snap)
        shutil.rmtree(snap, ignore_errors=True)


def rebuild_equivalence(env) -> dict | None:
    """C06's own oracle: an index freshly created from a copy of the files equals the incrementally maintained one."""
    other = zenv.ZEnv()
    try:
        for rel, text in env.pages().items():
            other.write(rel, text)
        shutil.copytree(env.zdir / ".zorg", other.zdir / ".zorg", ignore=shutil.ignore_patterns("zorg.db*"), dirs_exist_ok=True)
        r = other.db_create()
        if not r.ok:
            return {"what": "db create on a copy of the final files failed", "rc": r.rc}
        a, b = bi.canonical_dump(env), bi.canonical_dump(other)
        if a != b:
            only_inc = [x for x in a if x not in b][:3]
            only_new = [x for x in b if x not in a][:3]
            return {"what": "incremental index differs from a rebuild", "only_incremental": only_inc, "only_rebuilt": only_new}
        return None
    finally:
        other.cleanup()


def run_behaviours(trace_files: list, opts: dict) -> list:
    return par.pmap(replay_behaviour, [(f, opts) for f in trace_files], chunk=1 if opts.get("crash") else 2)
