"""The `zorg edit` loop on real directories (Bus.tla).

A scripted user stands in for the editor (vimala's process launcher is replaced inside the harness): in every
editor session they apply an edit kind of Bus!EditKinds to each page and decide about the keep-alive file.  The
external effects of zorg are observed below it (harness/interpose.py) and recorded in program order; the user's
own writes are not effects of zorg and are made with the observer switched off.

Two things are decided on such a history:
  * statements of the listed properties on the real stores whenever a process ends normally (index == recompiled
    files == rebuild of a copy, the hash map vouches for every page, every note has a ZID, stamps of today on
    exactly the notes the user changed) - these are verdicts;
  * whether the recorded effect sequence is a behaviour of Bus.tla (Trace_Bus) - a rejection there is reported as
    SPEC-DRIFT (the code no longer follows the modelled discipline), never as a violation by itself."""
from __future__ import annotations

import hashlib
import json
import random
import re
import shutil
from unittest.mock import MagicMock, patch

from . import bind_index as bi
from . import par, tlc, zenv
from .interpose import Interposer

PAGES = ["a.zo", "b.zo", "c.zo"]
CLI = ["a.zo", "q.zoq"]
ZOQ_QUERY = "S note W f=b O none"
KA_PATHS = [{"paths": ["b.zo", "a.zo"], "focus": "a.zo"}, {"paths": ["c.zo"], "focus": "c.zo"},
            {"paths": ["q.zoq", "b.zo"], "focus": "q.zoq"}]
NOTES_PER_PAGE = 6
BROKEN = "!!broken line\n"
DAY1, DAY2 = "2024-01-02", "2024-01-03"
STAMP2 = "240103"


def _initial_page(p: str) -> str:
    kinds = ["-", "o", "o P1", "x", "-", "~ P2"]
    return f"# Page {p[0]} +pj_{p[0]}\n\n" + "".join(
        f"{kinds[i % 6]} u{i + 1}v0 w{i} due::2024-05-0{i + 1} +tg_{p[0]}{i}\n" for i in range(NOTES_PER_PAGE))


def _norm(eff: dict):
    kind, t = eff["kind"], eff["target"] or ""
    if kind == "commit":
        return ["commit", "db"]
    if kind == "unlink":
        return ["unlink", "ka" if t == "keep_alive" else "db" if t == "org/.zorg/zorg.db" else t]
    if kind == "write" and t.endswith(".tmp"):
        return None                                  # first half of an atomic replace
    if kind == "rename":
        t = t.split("->")[1]
    elif kind != "write":
        return ["?", f"{kind} {t}"]
    names = {"org/.zorg/file_hash.json": "hash", "org/.zorg/error_file_whitelist.txt": "wl", "org/.zorg/next_ids.json": "ids"}
    if t in names:
        return ["w", names[t]]
    if t.startswith("org/") and t.endswith((".zo", ".zoq")) and "/." not in t:
        return ["w", t[4:]]
    return ["?", f"{kind} {t}"]


class User:
    """What the scripted user knows about the pages (to choose legal edits and to say what should be stamped)."""

    def __init__(self, rng):
        self.rng = rng
        self.broken = {p: False for p in PAGES}
        self.next_mod = {p: 1 for p in PAGES}      # next original note not yet modified today
        self.modded = {p: set() for p in PAGES}    # uids the user changed on DAY2 (and that must carry today's stamp)
        self.unstamped = {p: set() for p in PAGES}  # ... changed since the last process that ended normally
        self.nnew = 0

    def settled(self, by_create: bool, stamped_before: dict) -> None:
        """A process ended normally: a reindex has stamped what was changed; `db create` never stamps (what carried a
        stamp before it - written back by an earlier process that died later - keeps it)."""
        for p in PAGES:
            if by_create:
                self.modded[p] -= (self.unstamped[p] - stamped_before[p])
            self.unstamped[p] = set()

    def choose(self, last: bool) -> tuple[dict, dict]:
        ed = self.choose_edits()
        if last:
            ka = {"st": "absent", "paths": [], "focus": ""}
        else:
            r = self.rng.random()
            ka = ({"st": "empty", "paths": [], "focus": ""} if r < 0.5 else dict(self.rng.choice(KA_PATHS), st="paths"))
        return ed, ka

    def choose_edits(self, some: bool = False) -> dict:
        ed = {}
        for p in PAGES:
            if self.broken[p]:
                ed[p] = self.rng.choice(["none", "fix", "fix"])
                continue
            x = self.rng.random()
            kinds = ["none"] * 4 + ["plain", "mod", "new", "both", "mod", "new"] + (["break"] if x < 0.25 else [])
            k = self.rng.choice(kinds)
            if k in ("mod", "both") and self.next_mod[p] > NOTES_PER_PAGE:
                k = "plain"
            ed[p] = k
        if some and all(k == "none" for k in ed.values()):
            p = self.rng.choice([q for q in PAGES if not self.broken[q]] or PAGES)
            ed[p] = "fix" if self.broken[p] else "plain"
        return ed

    def apply(self, env, ed: dict) -> None:
        for p, k in ed.items():
            if k == "none":
                continue
            t = env.read(p)
            if k == "plain":
                lines = t.split("\n")
                lines[0] = lines[0] + " rev" + str(self.rng.randrange(1000))     # the title changes, no note does
                t = "\n".join(lines)
            if k in ("mod", "both"):
                u = self.next_mod[p]
                self.next_mod[p] += 1
                t2 = re.sub(rf"\bu{u}v(\d+)", lambda m: f"u{u}v{int(m.group(1)) + 1}", t)
                assert t2 != t, (p, u, t)
                t = t2
                self.modded[p].add(f"u{u}")
                self.unstamped[p].add(f"u{u}")
            if k in ("new", "both"):
                self.nnew += 1
                lines = t.split("\n")
                body = [i for i, ln in enumerate(lines) if i >= 2 and ln and ln != BROKEN.strip()]
                pos = self.rng.choice(body + [len(lines) - 1]) if body else len(lines) - 1
                lines.insert(pos, f"- n{self.nnew} fresh")
                t = "\n".join(lines)
            if k == "break":
                t = t + BROKEN
                self.broken[p] = True
            if k == "fix":
                assert t.endswith(BROKEN)
                t = t[: -len(BROKEN)]
                self.broken[p] = False
            env.path(p).write_text(t)


def _stamped_today(env) -> dict:
    out = {}
    for p in PAGES:
        out[p] = set(m.group(1) for m in re.finditer(rf"^\S+(?: P\d)? {STAMP2} \d{{6}}#\w+ (u\d+)v", env.read(p), re.M))
    return out


def _real_checks(env, user: User, only_index: bool = False) -> list:
    """Statements of C05 / C06 / C11 on the real stores after a process that ended normally (only_index: after a process
    that failed for no reason the user gave - only index-versus-files statements make sense then)."""
    out = []
    for d in bi.agreement_real(env):
        out.append(("agreement", d))
    hm = env.hashes()
    for p in PAGES:
        h = hashlib.sha256(env.path(p).read_bytes()).hexdigest()
        if hm.get(p) != h and not only_index:
            out.append(("hash", (p, "the hash map does not vouch for the page after a clean exit")))      # informational only
    for p in ([] if only_index else PAGES):
        for ln in env.read(p).split("\n"):
            m = re.match(r"^(?:[-ox~<>])(?: P\d)? (?:(\d{6}) )?(\d{6}#\w{2,3}) (?:\S+ )*?([un]\d+)", ln)
            if not ln or ln.startswith("#") or ln == BROKEN.strip():
                continue
            if not m:
                out.append(("zid", (p, ln, "note without ZID (or unexpected line) after a clean exit")))
                continue
            stamp, zid, uid = m.group(1), m.group(2), m.group(3)
            uid = re.match(r"[un]\d+", uid).group(0)
            want = uid in user.modded[p]
            if want != (stamp == STAMP2) or (stamp and stamp != STAMP2):
                out.append(("stamp", (p, ln, f"modified today by the user: {want}, stamp in the file: {stamp}")))
    # rebuild equivalence: db create on a copy of the files gives the same rows (ZIDs are all in the files by now)
    mine = bi.canonical_dump(env)
    other = zenv.ZEnv()
    try:
        shutil.rmtree(other.zdir)
        shutil.copytree(env.zdir, other.zdir, ignore=shutil.ignore_patterns(".zorg"))
        r = other.db_create()
        if not r.ok:
            out.append(("rebuild", ("db create on a copy failed", repr(r))))
        else:
            theirs = bi.canonical_dump(other)
            if mine != theirs:
                diff = [x for x in mine if x not in theirs][:3] + [x for x in theirs if x not in mine][:3]
                out.append(("rebuild", ("index differs from a rebuild", diff)))
    finally:
        other.cleanup()
    return out


def one_history(args) -> dict:
    seed, nproc, max_sess = args
    rng = random.Random(seed)
    zenv.set_day(DAY1)
    env = zenv.ZEnv()
    trace, problems, script = [], [], []
    try:
        for p in PAGES:
            env.write(p, _initial_page(p))
        env.write("q.zoq", f"# {ZOQ_QUERY}\n")
        r = env.db_create()
        if not r.ok:
            return {"id": seed, "trace": [], "problems": [("setup", repr(r))], "script": []}
        zenv.set_day(DAY2)
        user = User(rng)
        for _proc in range(nproc):
            kind = rng.choice(["edit"] * 6 + ["reindex"] * 2 + ["create"] * 2) if _proc else "edit"
            if _proc and rng.random() < 0.5:
                ed = user.choose_edits(some=True)             # the user edits pages with another tool, no zorg process running
                trace.append(["user", ed])
                script.append({"offline": ed})
                user.apply(env, ed)
            trace.append(["start", kind])
            script.append({"process": kind})
            nsess = rng.randint(1, max_sess)
            stamped_before = _stamped_today(env)
            st = {"k": 0}
            ipref = {}

            def fake_popen(cmd_args, **kw):
                ip = ipref["ip"]
                k = st["k"]
                st["k"] += 1
                last = k + 1 >= nsess
                ed, ka = user.choose(last)
                argv = [str(a) for a in cmd_args[1:]]
                paths, focus, i = [], "", 0
                while i < len(argv):
                    if argv[i] == "-c":
                        if argv[i + 1].startswith("edit "):
                            focus = argv[i + 1][5:]
                        i += 2
                    else:
                        a = argv[i]
                        paths.append(a[len(str(env.zdir)) + 1:] if a.startswith(str(env.zdir)) else a)
                        i += 1
                trace.append(["vim", paths, focus, ed, ka])
                script.append({"edits": ed, "ka": ka})
                ip._active = False
                try:
                    if k >= 1 and "q.zoq" in paths:
                        # from the second session on every page is indexed and written back: the saved-query page that was
                        # just refreshed must show the notes of b.zo as they are now
                        from . import emit
                        z = env.read("q.zoq")
                        m = re.fullmatch(re.escape(f"# {ZOQ_QUERY}\n#\n{emit.STATS}") + r"[^\n]*\n\n(.*?)\n?", z, re.S)
                        texts = [n.to_string().rstrip() for n in env.compile("b.zo").notes]
                        bad = "not header + stats line + results" if not m else emit._match_entries(m.group(1), texts)
                        if bad:
                            problems.append(("zoq", (f"saved-query page refreshed before editor session {k + 1}: {bad}", z[:1500])))
                    user.apply(env, ed)
                    if ka["st"] == "empty":
                        (env.root / "keep_alive").write_text("")
                    elif ka["st"] == "paths":
                        (env.root / "keep_alive").write_text(" ".join(ka["paths"] + [ka["focus"]]))
                finally:
                    ip._active = True
                return MagicMock()

            def on_effect(e):
                n = _norm(e)
                if n is not None and not (n == ["commit", "db"] and trace and trace[-1] == n):
                    trace.append(n)              # a run of commits is one observable ("one or more commits")

            with patch("vimala._vim.proctor.safe_popen", fake_popen):
                with Interposer(env.root, on_effect=on_effect) as ip:
                    ipref["ip"] = ip
                    r = env.main("edit", *CLI) if kind == "edit" else env.main("db", kind)
            trace.append(["exit", "ok" if r.ok else "error"])
            if r.ok:
                user.settled(kind == "create", stamped_before)
                problems += _real_checks(env, user)
                if any(user.broken.values()):
                    problems.append(("refusal", "process ended normally although a page is unparsable"))
            else:
                if not any(user.broken.values()):
                    problems.append(("crash", f"zorg {kind} failed without a broken page: {r!r} {r.err[-300:]}"))
                    problems += _real_checks(env, user, only_index=True)
                if kind == "create":
                    break           # a refused `db create` leaves an empty index behind: nothing is specified from here on
        return {"id": seed, "trace": trace, "problems": problems, "script": script}
    finally:
        env.cleanup()


def validate(recs: list, batch: int = 400) -> dict:
    """-> {id: accepted?} through Trace_Bus."""
    verdict = {}
    for i in range(0, len(recs), batch):
        chunk = recs[i:i + batch]
        path = tlc.scratch_root() / f"bus-{i}.ndjson"
        path.write_text("".join(json.dumps({"id": r["id"], "trace": r["trace"]}) + "\n" for r in chunk))
        res = tlc.run_tlc("Trace_Bus", "Trace_Bus.cfg", workers=8, env={"ZV_TRACE": str(path)}, timeout=1800)
        if res.violated or res.error:
            # an invariant of Bus failed on a state reached by a recorded run, or TLC itself failed
            verdict["__tlc__"] = {"violated": res.violated, "error": res.error, "tail": res.output.splitlines()[-25:]}
        acc = set()
        for line in res.output.splitlines():
            m = re.match(r'^<<"ACCEPT", (\d+)>>', line.strip())
            if m:
                acc.add(int(m.group(1)))
        for r in chunk:
            verdict[r["id"]] = r["id"] in acc
    return verdict


def diagnose(rec: dict) -> int:
    """Longest prefix of the trace Trace_Bus can explain (1-based position of the first unexplained effect)."""
    path = tlc.scratch_root() / "bus-diag.ndjson"
    path.write_text(json.dumps({"id": rec["id"], "trace": rec["trace"]}) + "\n")
    res = tlc.run_tlc("Trace_Bus", "Trace_Bus.cfg", workers=1, env={"ZV_TRACE": str(path), "ZV_DIAG": "1"}, timeout=600)
    best = 1
    for line in res.output.splitlines():
        m = re.match(r'^<<"AT", \d+, (\d+)>>', line.strip())
        if m:
            best = max(best, int(m.group(1)))
    return best


def run(n: int, seed: int, nproc: int = 2, max_sess: int = 4) -> tuple[list, dict]:
    recs = par.pmap(one_history, [(seed * 100003 + i, nproc, max_sess) for i in range(n)])
    return recs, validate(recs)
