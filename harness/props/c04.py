"""C04 - query text is compiled into the structure its syntax denotes.

Spec: QueryGrammar.tla (families of [text, denoted structure]: all 64 priority spellings, kind strings, every
select form, order / group lists, both clause orders, omitted clauses, date atoms via Dates.tla under several
`today`s, property atoms with inferred value type, tags) and MC_Filter (tree shapes: juxtaposition, |, nesting).
TLC enumerates the cases; each text is compiled by the real build_zorg_query under a frozen clock and the projected
Query must equal the denoted structure."""
from __future__ import annotations

import contextlib
import io
import json

from .. import bind_query as bq
from .. import par, tlc, zenv
from ..main import VERIF

LEVEL = "model_checking"
TODAYS_QUICK = [(2024, 1, 31), (2024, 2, 29), (2023, 12, 31), (2025, 3, 30)]
TODAYS = TODAYS_QUICK + [(2024, 3, 31), (2024, 5, 31), (2024, 8, 31), (2024, 10, 31), (2023, 2, 28), (2023, 1, 29), (2023, 1, 30),
                         (2024, 12, 31), (2024, 1, 1), (2028, 2, 29), (2027, 2, 28), (2024, 4, 30), (2024, 6, 30), (2024, 9, 30),
                         (2024, 11, 30), (2024, 7, 31), (2025, 1, 31), (2026, 5, 15), (2000, 2, 29), (2031, 12, 1)]


def _compile_chunk(args):
    today, cases = args
    zenv.set_day("%04d-%02d-%02d" % today)
    from zorg.service.compiler import build_zorg_query
    out = []
    for c in cases:
        err = io.StringIO()
        try:
            with contextlib.redirect_stderr(err):
                q = build_zorg_query(c["txt"])
            out.append({"txt": c["txt"], "obs": bq.proj_query_raw(q), "obs_where3": bq.proj_or(q.where)})
        except Exception as e:  # noqa: BLE001
            out.append({"txt": c["txt"], "exc": repr(e)})
    return out


def gen(ctx, family: str, today=(2024, 1, 31), deep=False) -> list:
    cfg = tlc.scratch_root() / f"q-{family}-{today[0]}{today[1]:02d}{today[2]:02d}.cfg"
    cfg.write_text(f'SPECIFICATION Spec\nCONSTANTS\n Family = "{family}"\n TY = {today[0]}\n TM = {today[1]}\n TD = {today[2]}\n'
                   f' Deep = {"TRUE" if deep else "FALSE"}\nINVARIANT EmitCase\nCHECK_DEADLOCK FALSE\n')
    r = tlc.run_tlc("MC_Query", cfg=str(cfg))
    if not r.ok:
        ctx.machinery(f"MC_Query {family}: {r.error}\n{r.output[-1500:]}")
    ctx.add("states", r.distinct)
    ctx.add("transitions", r.generated)
    cases = [json.loads(json.loads(l)) for l in r.output.splitlines() if l.startswith('"{')]
    if len(cases) != r.distinct:
        ctx.machinery(f"MC_Query {family}: {len(cases)} cases emitted for {r.distinct} states")
    return sorted(cases, key=lambda c: c["txt"])


def run(ctx):
    deep = not ctx.quick
    fam_counts = {}
    jobs = []
    expected = {}
    for fam in ("prio", "kinds", "select", "order", "group", "props", "tags"):
        cases = gen(ctx, fam, deep=deep)
        fam_counts[fam] = len(cases)
        for c in cases:
            expected[((2024, 1, 31), c["txt"])] = c["q"]
        for i in range(0, len(cases), 100):
            jobs.append(((2024, 1, 31), cases[i:i + 100]))
    ndates = 0
    for today in (TODAYS_QUICK if ctx.quick else TODAYS):
        cases = gen(ctx, "dates", today, deep=deep)
        ndates += len(cases)
        for c in cases:
            expected[(today, c["txt"])] = c["q"]
        for i in range(0, len(cases), 300):
            jobs.append((today, cases[i:i + 300]))
    fam_counts["dates"] = ndates
    results = par.pmap(_compile_chunk, jobs, chunk=1)
    bad_by_class = {}
    n = 0
    for (today, _), part in zip(jobs, results):
        for o in part:
            n += 1
            exp = expected[(today, o["txt"])]
            if "exc" in o:
                bad_by_class.setdefault("exception", []).append((today, o["txt"], o["exc"], None))
                continue
            if bq.canon(o["obs"]) != bq.canon(exp):
                diff = [k for k in exp if bq.canon({k: o["obs"].get(k)}) != bq.canon({k: exp[k]})]
                bad_by_class.setdefault("+".join(diff) or "shape", []).append((today, o["txt"], o["obs"], exp))
    # ---- tree shapes: MC_Filter compositions (no index needed: only the compiled structure is compared)
    root = tlc.scratch_root()
    (root / "u-empty.json").write_text(json.dumps({"notes": []}))
    depth = 2 if ctx.quick else 3
    r = tlc.run_tlc("MC_Filter", cfg=f"MC_Filter_d{depth}.cfg",
                    env={"ZV_ATOMS": str(VERIF / "corpus" / "filter_atoms.json"), "ZV_UNIV": str(root / "u-empty.json")})
    if not r.ok:
        ctx.machinery(f"MC_Filter: {r.error}\n{r.output[-1500:]}")
    ctx.tlc_stats(r, f"MC_Filter depth {depth}: tree shapes")
    tree = sorted((json.loads(json.loads(l)) for l in r.output.splitlines() if l.startswith('"{')), key=lambda c: c["txt"])
    tjobs = [((2024, 1, 31), [{"txt": "W " + c["txt"]} for c in tree[i:i + 200]]) for i in range(0, len(tree), 200)]
    texp = {"W " + c["txt"]: c["where"] for c in tree}
    for part in par.pmap(_compile_chunk, tjobs, chunk=1):
        for o in part:
            n += 1
            if "exc" in o:
                bad_by_class.setdefault("exception", []).append(((2024, 1, 31), o["txt"], o["exc"], None))
            elif bq.canon({"w": o["obs_where3"]}) != bq.canon({"w": texp[o["txt"]]}):
                bad_by_class.setdefault("tree", []).append(((2024, 1, 31), o["txt"], o["obs_where3"], texp[o["txt"]]))
    fam_counts["tree"] = len(tree)
    import re
    # the recorded finding: `key:VALUE` without operator where VALUE starts like a date spec (240305, 3d, -1m): the lexer
    # fuses ':VALUE' into one DATE_RANGE_TAIL token and the compiler raises
    kf = [i for i in bad_by_class.get("exception", []) if re.fullmatch(r"W !?\w+:(-?\d+[dmy]\w*|\d{6})", i[1])]
    if kf:
        bad_by_class["exception"] = [i for i in bad_by_class["exception"] if i not in kf]
        if not bad_by_class["exception"]:
            del bad_by_class["exception"]
        ctx.violation("property equality filter whose value is a short or relative date", {"examples": [i[1] for i in kf[:10]]},
                      key="prop-eq-date-spec-value")
        ctx.known_hits["prop-eq-date-spec-value"] = len(kf)
    for cls, items in sorted(bad_by_class.items()):
        today, txt, obs, exp = items[0]
        ctx.violation(f"{len(items)} query text(s) compile to a structure that differs in `{cls}` from what they spell; e.g. "
                      f"`{txt}` (today {today}): compiled {json.dumps(obs)[:300]} expected {json.dumps(exp)[:300]}",
                      {"class": cls, "count": len(items),
                       "examples": [{"today": list(t), "query": q, "compiled": o, "denoted": e} for t, q, o, e in items[:8]]})
    ctx.set("evaluations", n)
    ctx.set("cases_by_family", fam_counts)
    ctx.add("traces_validated_against_impl", n)
    ctx.set("distinct_nontrivial", len(expected) + len(tree))
    ctx.set("exhaustive", True)
    ctx.set("rule", "every case TLC enumerates for each family of QueryGrammar.tla (64 priority spellings, kind strings <= 3, select forms "
                    "x clause layouts, order lists, group lists, property atoms, tags, date atoms x todays) and every MC_Filter "
                    "composition; distinct = distinct (today, query text)")
    ctx.sample({"texts": [t for (_, t) in list(expected)[:3]] + [c["txt"] for c in tree[-3:]]})
    ctx.assume("identifiers avoid the literal tokens of the query grammar (c, f=, S W O G, keywords, o, x); only the compiled structure "
               "is compared, parser noise on stderr (e.g. for the digits 1-9) is ignored")


def replay(ctx, rep):
    print(json.dumps(rep["case"], indent=1, default=str)[:5000])
    return 0
