"""C09 - query output renders the selected notes faithfully.

Spec: Output.tla (Clauses: groups, group-order, each-once, note-order, values, values-sorted, count).
TLC (MC_Output) enumerates select form x GROUP BY list x ORDER BY list; every query is executed by the real
swog.execute on the designed universe and on random universes; the rendered text is parsed into entries with their
header paths, the matching notes are read from the raw rows, and TLC (Trace_Output) evaluates every clause."""
from __future__ import annotations

import json
import random
import shutil
from pathlib import Path

from .. import bind_output as bo
from .. import bind_query as bq
from .. import par, tlc, zenv
from ..main import VERIF
from . import c03

LEVEL = "model_checking"


def _fixsel(x):
    x = dict(x)
    if "key" in x:
        x["key"] = bq.T(x["key"])
    if "of" in x:
        x["of"] = _fixsel(x["of"])
    return x


def _exec_chunk(args):
    zdir, uidx, zid_index, cases = args
    import contextlib
    import io
    from zorg.service import swog
    from zorg.service.compiler import build_zorg_query
    zenv.set_day("2024-06-01")
    env = zenv.ZEnv.__new__(zenv.ZEnv)
    env.zdir = Path(zdir)
    env.root = env.zdir.parent
    out = []
    for c in cases:
        err = io.StringIO()
        rec = {"txt": c["txt"], "u": uidx, "q": {"select": _fixsel(c["q"]["select"]), "group": c["q"]["group"], "order": c["q"]["order"]}}
        try:
            with contextlib.redirect_stderr(err):
                zenv.reset_process_state()
                text = swog.execute(env.zdir, f"sqlite:///{env.db_path}", c["txt"])
                zenv.reset_process_state()
                where = build_zorg_query(c["txt"]).where
            zids = bq.run_where(env, where)
            rec["m"] = sorted(zid_index[z] for z in zids)
            rec["e"] = bo.parse_output(text, c["q"]["select"]["t"])
            rec["out"] = text
        except Exception as e:  # noqa: BLE001
            rec["exc"] = repr(e)
        out.append(rec)
    return out


def run(ctx):
    rng = random.Random(ctx.seed)
    r = tlc.run_tlc("MC_Output", cfg="MC_Output_FALSE.cfg" if ctx.quick else "MC_Output_TRUE.cfg")
    if not r.ok:
        ctx.machinery(f"MC_Output: {r.error}\n{r.output[-1500:]}")
    ctx.tlc_stats(r, "MC_Output: select x group-by lists x order-by lists")
    cases = sorted((json.loads(json.loads(l)) for l in r.output.splitlines() if l.startswith('"{')), key=lambda c: c["txt"])
    if len(cases) != r.distinct:
        ctx.machinery(f"MC_Output emitted {len(cases)} cases for {r.distinct} states")
    env = c03._u0_env()
    universes = [bo.out_universe(env)]
    dirs = [str(env.zdir)]
    made = [u for u in par.pmap(c03._rand_universe, [(ctx.seed * 77 + i, rng.randint(3, 6)) for i in range(2 if ctx.quick else 25)], chunk=1) if u]
    for rootdir, _rows in made:
        e = zenv.ZEnv.__new__(zenv.ZEnv)
        e.root, e.zdir = Path(rootdir), Path(rootdir) / "org"
        universes.append(bo.out_universe(e))
        dirs.append(str(e.zdir))
    jobs = []
    for ui, (zdir, U) in enumerate(zip(dirs, universes), start=1):
        zid_index = {n["zid"]: k + 1 for k, n in enumerate(U)}
        if ui == 1:
            pool = cases if not ctx.quick else rng.sample(cases, min(len(cases), 700))
        else:
            pool = rng.sample(cases, min(len(cases), 150 if ctx.quick else 1500))
        for i in range(0, len(pool), 60):
            jobs.append((zdir, ui, zid_index, pool[i:i + 60]))
    recs = []
    for part in par.pmap(_exec_chunk, jobs, chunk=1):
        for rec in part:
            ctx.add("evaluations")
            if "exc" in rec:
                ctx.violation(f"`{rec['txt']}` raised {rec['exc']}", {"query": rec["txt"], "universe": dirs[rec["u"] - 1], "exception": rec["exc"]})
                continue
            rec["id"] = f"o{len(recs)}"
            recs.append(rec)
    for u in universes:
        for n in u:
            n.pop("zid", None)
    verdicts = bo.tlc_output_verdicts(universes, recs, ctx, "c09")
    by_clause = {}
    for rec in recs:
        failing = set(verdicts[rec["id"]])
        for cl in failing - {"note-order-as-built"}:
            # the recorded finding (`O none` compares line numbers as text) explains a disorder only if the order is right once
            # line numbers are compared the way the code does; any other disorder is reported
            kf = cl == "note-order" and "note-order-as-built" not in failing and "NONE" in rec["q"]["order"]
            by_clause.setdefault((cl, kf), []).append(rec)
    for (cl, kf), items in sorted(by_clause.items()):
        rec = min(items, key=lambda x: len(x["out"]))
        key = "order-none-line-numbers-as-text" if kf else None
        ctx.violation(f"{len(items)} rendered result(s) violate clause `{cl}` of Output.tla; smallest: `{rec['txt']}`",
                      {"clause": cl, "count": len(items), "query": rec["txt"], "output": rec["out"],
                       "pages": {str(p.relative_to(dirs[rec['u'] - 1])): p.read_text() for p in Path(dirs[rec['u'] - 1]).rglob('*.zo')},
                       "other_queries": [x["txt"] for x in items[1:8]]}, key=key)
    ctx.add("traces_validated_against_impl", len(recs))
    ctx.set("distinct_nontrivial", len({(x["u"], x["txt"]) for x in recs}))
    ctx.set("rule", "queries = cases TLC enumerated (select x group lists x order lists; sampled in quick) on the designed universe "
                    "(incl. a page with notes on lines 3-12, notes with two tags of one type, none, equal keys) and on random universes")
    ctx.sample({"query": recs[0]["txt"], "output": recs[0]["out"][:500]})
    ctx.assume("the note texts of the matching notes are PageSem!RenderNote of the raw rows (bound to Note.to_string by C12)")
    ctx.assume("order among notes with equal key tuples, and of value listings unless ordered by alpha, is free")
    for rootdir, _ in made:
        shutil.rmtree(rootdir, ignore_errors=True)
    env.cleanup()
    c03._ENV.clear()


def replay(ctx, rep):
    print(json.dumps(rep["case"], indent=1, default=str)[:5000])
    return 0
