"""C18 - file-group expansion flattens groups in place and in order.

Spec: FileGroups.tla (Expand; date patterns through Dates.tla).  TLC (MC_Groups) enumerates acyclic group maps over
four names (nesting depth up to 4, shared sub-groups, plain members, date patterns for today .. today-6) x argument
lists mixing group names and paths, under several `today`s (month / year / leap boundaries), checks the homomorphism
law on the specification, and emits the expected flattened list; the real expand_file_group_paths runs under a
frozen clock and must return exactly that list, and f(a + b) == f(a) + f(b) is checked on the code as well."""
from __future__ import annotations

import json
import random

from .. import par, tlc, zenv

LEVEL = "model_checking"
TODAYS = [(2024, 3, 3), (2024, 1, 2), (2023, 3, 1), (2024, 5, 18), (2025, 1, 6), (2024, 12, 31)]


def _chunk(segments):
    """segments: [(today, cases), ...] - one process expands on SEVERAL days in turn (anything remembered from an earlier
    expansion must not leak into a later day's)."""
    bad = []
    for today, cases in segments:
        bad += _segment(today, cases)
    return bad


def _segment(today, cases):
    zenv.set_day("%04d-%02d-%02d" % today, "23:59:00")
    from zorg.service.file_groups import expand_file_group_paths
    bad = []
    for c in cases:
        try:
            got = [str(p) for p in expand_file_group_paths(list(c["args"]), file_group_map=c["groups"])]
        except Exception as e:  # noqa: BLE001
            bad.append({"case": c, "today": list(today), "exc": repr(e)})
            continue
        if got != list(c["exp"]):
            bad.append({"case": c, "today": list(today), "observed": got})
            continue
        if len(c["args"]) >= 2:
            a, b = list(c["args"][:1]), list(c["args"][1:])
            parts = [str(p) for p in expand_file_group_paths(a, file_group_map=c["groups"])] + \
                    [str(p) for p in expand_file_group_paths(b, file_group_map=c["groups"])]
            if parts != got:
                bad.append({"case": c, "today": list(today), "observed": got, "concatenated_parts": parts, "law": "homomorphism"})
    return bad


def run(ctx):
    rng = random.Random(ctx.seed)
    n = 0
    jobs = []
    sample = None
    for today in (TODAYS[:2] if ctx.quick else TODAYS):
        cfg = tlc.scratch_root() / f"groups-{today[0]}{today[1]:02d}{today[2]:02d}.cfg"
        cfg.write_text(f"SPECIFICATION Spec\nCONSTANTS\n TY = {today[0]}\n TM = {today[1]}\n TD = {today[2]}\nINVARIANT EmitCase\n"
                       "CHECK_DEADLOCK FALSE\n")
        r = tlc.run_tlc("MC_Groups", cfg=str(cfg))
        if not r.ok:
            ctx.machinery(f"MC_Groups: {r.violated} {r.error}\n{r.output[-1500:]}")
        ctx.tlc_stats(r, f"MC_Groups today={today}")
        cases = sorted((json.loads(json.loads(l)) for l in r.output.splitlines() if l.startswith('"{')), key=lambda c: json.dumps(c, sort_keys=True))
        if len(cases) != r.distinct - 30:          # 30 initial states choose the first two groups, every other state is a case
            ctx.machinery(f"MC_Groups emitted {len(cases)} cases for {r.distinct} states")
        if ctx.quick:
            cases = rng.sample(cases, min(len(cases), 12000))
        n += len(cases)
        sample = sample or cases[len(cases) // 2]
        for i in range(0, len(cases), 500):
            jobs.append((today, cases[i:i + 500]))
    # every worker job mixes the days: segment k of each day, in turn
    by_day = {}
    for today, seg in jobs:
        by_day.setdefault(today, []).append(seg)
    depth = max(len(v) for v in by_day.values())
    mixed = [[(today, segs[k]) for today, segs in sorted(by_day.items()) if k < len(segs)] for k in range(depth)]
    bad = [b for part in par.pmap(_chunk, mixed, chunk=1) for b in part]
    groups = {}
    for b in bad:
        groups.setdefault("exception" if "exc" in b else b.get("law", "expansion"), []).append(b)
    for k, items in sorted(groups.items()):
        b = min(items, key=lambda x: len(json.dumps(x)))
        ctx.violation(f"{len(items)} expansion(s) differ ({k}); e.g. args {b['case']['args']} with groups {b['case']['groups']} on {b['today']}: "
                      f"got {b.get('observed', b.get('exc'))}, expected {b['case']['exp']}",
                      {"kind": k, "count": len(items), "example": b})
    ctx.set("evaluations", n)
    ctx.add("traces_validated_against_impl", n)
    ctx.set("distinct_nontrivial", n)
    ctx.set("exhaustive", not ctx.quick)
    ctx.set("rule", "cases = every (group map, argument list) TLC enumerated for each today (sampled in quick); all distinct")
    ctx.sample(sample)
    ctx.assume("group maps are acyclic; member patterns use the documented fields yyyymmdd[i] and days[i].year")


def replay(ctx, rep):
    print(json.dumps(rep["case"], indent=1, default=str)[:5000])
    return 0
