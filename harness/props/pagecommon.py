"""Common driver of the page-level properties: sources of abstract pages -> real compiler -> TLC verdicts."""
from __future__ import annotations

import random

from .. import bind_page as bp
from .. import pages


def classify(rec: dict, idx: int, field: str, verdict: dict):
    """Names the input class of a discrepancy when it is one of the recorded findings (else None)."""
    if rec["res"] == "exc":
        return None
    if field == "props" and idx >= 1:
        obs = rec["notes"][idx - 1]["props"]
        exp = {tuple(x) for x in verdict["exp"][(idx, field)]}
        extra = [kv for kv in obs if tuple(kv) not in exp]
        missing = [kv for kv in exp if list(kv) not in obs]
        if extra and not missing and all(k.startswith("[") for k, _ in extra):
            return "inline-prop-first-word-bogus-key"
    return None


def check_records(ctx, recs: list, verdicts: dict, fields: set, what: str, nontrivial) -> None:
    """Reports every record whose observed notes differ from PageSem in one of `fields`."""
    seen_nt = ctx.coverage.setdefault("_nt", set())
    for r in recs:
        v = verdicts[r["id"]]
        ctx.add("evaluations")
        sig = nontrivial(r)
        if sig is not None:
            seen_nt.add(sig)
        text = None
        if v["res"] != "ok":
            text = bp.render_page(r["page"])
            ctx.violation(f"{what}: compiling a valid page ended with {v['res']} {r.get('exc', '')}",
                          {"source": r["id"], "text": text, "page": r["page"], "today": r["today"], "result": v["res"],
                           "exception": r.get("exc")},
                          key=("valid-page-raises-" + r.get("exc", "").split("(")[0]) if v["res"] == "exc" else None)
            continue
        if "count" in fields and v["nexp"] != v["nobs"]:
            ctx.violation(f"{what}: {v['nobs']} notes compiled, {v['nexp']} items written",
                          {"source": r["id"], "text": bp.render_page(r["page"]), "page": r["page"], "today": r["today"]})
            continue
        bad = sorted((i, f) for (i, f) in v["bad"] if f in fields)
        by_key = {}
        for i, f in bad:
            by_key.setdefault(classify(r, i, f, v), []).append((i, f))
        for key, items in by_key.items():
            i, f = items[0]
            n = r["notes"][i - 1]
            ctx.violation(
                f"{what}: note at line {n['line']}: {f} is {n[f]!r}, the page says {v['exp'][(i, f)]!r}"
                + (f" (+{len(items) - 1} more fields/notes)" if len(items) > 1 else ""),
                {"source": r["id"], "text": bp.render_page(r["page"]), "page": r["page"], "today": r["today"],
                 "differences": [{"note": i, "field": f, "observed": r["notes"][i - 1][f], "expected": v["exp"][(i, f)]}
                                 for i, f in items]},
                key=key)


def finish_nontrivial(ctx, rule: str) -> None:
    nt = ctx.coverage.pop("_nt", set())
    ctx.set("distinct_nontrivial", len(nt))
    ctx.set("rule", rule)


def random_cases(seed: int, n: int, *, lines=(8, 40), meta_p=0.3, tag="rnd", want_zid=None) -> list:
    g = bp.Gen(random.Random(seed))
    return [(f"{tag}{i}", g.a_page(n_lines=lines, meta_p=meta_p, want_zid=want_zid), pages.TODAY) for i in range(n)]


def replay_case(ctx, rep: dict, fields: set) -> int:
    """Re-runs one stored case through the same pipeline."""
    case = rep["case"]
    recs = pages.compile_cases([("replay", case["page"], case.get("today", pages.TODAY))])
    v = pages.tlc_verdicts(recs, ctx, "replay")["replay"]
    bad = sorted((i, f) for (i, f) in v["bad"] if f in fields)
    print(case.get("text") or bp.render_page(case["page"]))
    print("result:", v["res"], "expected notes:", v["nexp"], "observed:", v["nobs"])
    for i, f in bad:
        print(f"  note {i} {f}: observed {recs[0]['notes'][i - 1][f]!r} expected {v['exp'][(i, f)]!r}")
    failed = v["res"] != "ok" or bad or ("count" in fields and v["nexp"] != v["nobs"])
    print("VIOLATION reproduced" if failed else "no violation")
    return 1 if failed else 0


def stratified_items(items: list, rng, extra: int) -> list:
    """One page per (kind, priority, word classes/spellings of the first three words) stratum, plus `extra` random ones."""
    strata = {}
    for p in items:
        it = p["body"][0]
        key = (it["kind"], it["prio"], tuple(w["txt"] for w in it["w"][:3] if w["c"] in ("sdate", "ldate", "zid"))[:2],
               tuple((w["c"], w["txt"]) for w in it["w"] if w["c"] not in ("sdate", "zid"))[:1])
        strata.setdefault(key, []).append(p)
    chosen = [rng.choice(v) for k, v in sorted(strata.items(), key=lambda kv: repr(kv[0]))]
    chosen += rng.sample(items, min(extra, len(items)))
    return chosen
