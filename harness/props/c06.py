"""C06 - incremental reindexing is equivalent to rebuilding the index.

Spec: Index.tla (DbReindex with and without explicit paths, RebuildEquivalence, NoGhostPages).  Binding: simulated
edit histories (add / edit / delete / move / reorder notes, add / delete / rename pages, break / fix pages, day
changes, explicit-path reindex runs) replayed on real directories; after every plain `db reindex` the rows must
equal the TLC successor state AND a `db create` on a copy of the final files (the property's own oracle)."""
from __future__ import annotations

from . import indexcommon as ic

LEVEL = "model_checking"


def cats(c: str) -> bool:
    return c.startswith(("db.reindex", "rebuild.", "agreement.reindex", "command.failed", "db.refusedReindex"))


def run(ctx):
    ic.design(ctx, [("MC_IndexQuick.cfg" if ctx.quick else "MC_IndexStart.cfg", "indexed start, edit alphabet"),
                    ("MC_IndexPaths.cfg", "explicit-path reindex runs")])
    q = ctx.quick
    sims = [("Sim_IndexAll.cfg", 50 if q else 1200, 12), ("Sim_IndexEdit.cfg", 25 if q else 600, 12),
            ("Sim_IndexScript06.cfg", 16 if q else 200, 8)]
    res = ic.tour(ctx, sims, {"idempotence": False, "rebuild": True}, cats, "C06")
    ic.random_histories(ctx, "C06", {"reindex"})
    ic.edit_loop(ctx, "C06", {"agreement", "rebuild"})
    for x in res[:2]:
        ctx.sample({"behaviour": x["actions"], "commands": x["commands"]})
    ic.finish(ctx, "behaviours = random walks of the TLC simulator over Index.tla with the full edit alphabet and explicit-path "
                   "reindex runs; every plain reindex is followed by a rebuild of a copy; distinct = distinct action sequences")
    ctx.assume("explicit paths name existing files; what follows a refused `db create` is outside the property")


def replay(ctx, rep):
    import json
    print(json.dumps(rep["case"], indent=1, default=str)[:4000])
    return 0
