"""C14 - `file rename` retargets every link to the page and nothing else.

Spec: FileOps.tla (RenameToks on token sequences).  TLC (MC_Rename) enumerates (A, B) pairs x every sequence of up
to 2 (quick) / 3 (thorough) tokens over links to A, to A with anchors, to A's adversarial neighbours and look-alike
text, and renders the text before / after.  The binding writes the sequences into .zo / .zot / .zoq files in the
root and in sub-directories (hundreds per directory), runs the real `zorg file rename A B` once per directory and
compares every file byte for byte, and the directory listing, with the expected rendering."""
from __future__ import annotations

import json
import random

from .. import par, tlc, zenv

LEVEL = "model_checking"
EXTS = [".zo", ".zot", ".zoq", ".zo"]
DIRS = ["", "sub/", "deep/er/", ".arch/"]        # (a hidden sub-directory is a sub-directory)


def _run_dir(args):
    a, b, cases, hidden_parent = args
    zenv.set_day("2024-06-01")
    env = zenv.ZEnv()
    if hidden_parent:           # the notes directory itself lives below a dot directory (~/.local/share/org)
        env.zdir = env.root / ".local" / "share" / "org"
        env.zdir.mkdir(parents=True)
    bad = []
    try:
        files = {}
        for i, c in enumerate(cases):
            name = f"{DIRS[i % 4]}f{i:04d}{EXTS[(i // 4) % 4]}"
            files[name] = (f"# Page {i} {c['before']}\n\n- 240101#{i % 90 + 10:02d} note {c['before']} end\n  * {c['before']}\n",
                           f"# Page {i} {c['after']}\n\n- 240101#{i % 90 + 10:02d} note {c['after']} end\n  * {c['after']}\n", c)
        # the page being renamed links to itself and to a neighbour
        src_text = f"# The page [[{a}]] [[{a}#top]] [[{a}z]]\n\n- 240101#01 self [[{a}]]\n"
        dst_text = f"# The page [[{b}]] [[{b}#top]] [[{a}z]]\n\n- 240101#01 self [[{b}]]\n"
        env.write(a + ".zo", src_text)
        for name, (before, _, _) in files.items():
            env.write(name, before)
        listing_before = set(env.pages())
        r = env.main("file", "rename", a, b)
        if not r.ok:
            return [{"a": a, "b": b, "what": f"rename failed rc={r.rc} exc={r.exc!r}"}]
        now = env.pages()
        want_listing = (listing_before - {a + ".zo"}) | {b + ".zo"}
        if set(now) != want_listing:
            bad.append({"a": a, "b": b, "what": "directory listing", "missing": sorted(want_listing - set(now)), "extra": sorted(set(now) - want_listing)})
        if now.get(b + ".zo") != dst_text:
            bad.append({"a": a, "b": b, "what": "renamed page content", "expected": dst_text, "observed": now.get(b + ".zo")})
        for name, (before, after, c) in files.items():
            if now.get(name) != after:
                bad.append({"a": a, "b": b, "what": "file content", "file": name, "before": before, "expected": after, "observed": now.get(name)})
    finally:
        env.cleanup()
    return bad


def run(ctx):
    rng = random.Random(ctx.seed)
    r = tlc.run_tlc("MC_Rename", cfg="MC_Rename_FALSE.cfg" if ctx.quick else "MC_Rename_TRUE.cfg")
    if not r.ok:
        ctx.machinery(f"MC_Rename: {r.error}\n{r.output[-1500:]}")
    ctx.tlc_stats(r, "MC_Rename: (A, B) pairs x token sequences")
    cases = sorted((json.loads(json.loads(l)) for l in r.output.splitlines() if l.startswith('"{')), key=lambda c: json.dumps(c, sort_keys=True))
    if len(cases) != r.distinct:
        ctx.machinery(f"MC_Rename emitted {len(cases)} cases for {r.distinct} states")
    by_pair = {}
    for c in cases:
        by_pair.setdefault((c["a"], c["b"]), []).append(c)
    jobs = []
    for (a, b), cs in sorted(by_pair.items()):
        rng.shuffle(cs)
        for i in range(0, len(cs), 150):
            jobs.append((a, b, cs[i:i + 150], len(jobs) % 2 == 1))
    bad = [x for part in par.pmap(_run_dir, jobs, chunk=1) for x in part]
    groups = {}
    for b_ in bad:
        groups.setdefault((b_["what"], b_["a"], b_["b"]), []).append(b_)
    for (what, a, b), items in sorted(groups.items()):
        ctx.violation(f"file rename {a} -> {b}: {len(items)} x {what}; e.g. {json.dumps(items[0])[:500]}",
                      {"a": a, "b": b, "what": what, "count": len(items), "examples": items[:5]})
    ctx.set("evaluations", len(cases))
    ctx.add("traces_validated_against_impl", len(jobs))
    ctx.set("distinct_nontrivial", len(cases))
    ctx.set("exhaustive", True)
    ctx.set("rule", "cases = every (A, B, token sequence) TLC enumerated; each sequence is written into the title line, an item and a "
                    "bullet of a file (.zo / .zot / .zoq; root and sub-directories), ~150 files per rename run")
    ctx.sample({"rename": [cases[0]["a"], cases[0]["b"]], "before": cases[0]["before"], "after": cases[0]["after"]})
    ctx.assume("the destination's parent directory exists; bracket text that is not a complete link is generated only in the forms listed in MC_Rename")


def replay(ctx, rep):
    print(json.dumps(rep["case"], indent=1, default=str)[:5000])
    return 0
