"""C12 - a note's text form compiles back to the same note.

Spec: PageSem!RenderNote and the design-level theorem MC_PageItem!RoundTrip (TLC: for every
single-item shape the rendered note, put under a title line, denotes a note equal on kind, ZID,
body, own metadata, dates if it has a ZID, priority if not done/cancelled).
Binding (Trace_Page!VerdictRT): for every page, each real Note's to_string() must equal
RenderNote of the note PageSem expects, and the page "# T / blank / emitted texts" compiled by
the real compiler must give PageSem!Notes(Page2(page)) on exactly the fields the property names.
Through the index (harness/emit.py): for pages whose items all carry ZIDs, the ungrouped selection of all notes
(swog.execute) and the refreshed saved-query page (`zorg edit q.zoq`) must consist of exactly those texts, a second
refresh must change nothing, and the compiled .zoq page must give the notes TLC approved."""
from __future__ import annotations

import random

from .. import bind_page as bp
from .. import pages
from . import pagecommon as pc

LEVEL = "model_checking"


def sig(rec):
    return tuple((l.get("kind"), l.get("prio", ""), tuple(w["c"] for w in l.get("w", [])[:3]), len(l.get("cont", [])))
                 for l in rec["page"]["body"] if l["k"] == "item")


def run(ctx):
    rng = random.Random(ctx.seed)
    items, _ = pages.pages_from_tlc("MC_PageItem", "MC_PageItem.cfg", ctx, "MC_PageItem: RoundTrip on all single-item shapes")
    items = [p for p in items if p["body"]]
    chosen = items if not ctx.quick else pc.stratified_items(items, rng, 400)
    if ctx.quick and len(chosen) > 1500:
        chosen = rng.sample(chosen, 1500)
    del items
    ctx.stage("tlc MC_PageItem")
    cases = [(f"item{i}", p, pages.TODAY) for i, p in enumerate(chosen)]
    cases += pc.random_cases(ctx.seed + 12, 150 if ctx.quick else 3000, lines=(6, 40), meta_p=0.35, tag="rt")
    cases += pc.random_cases(ctx.seed + 112, 60 if ctx.quick else 1500, lines=(3, 30), meta_p=0.35, tag="ix", want_zid=True)
    # runs of spaces inside the first body line are part of the text (seed C12-d): in every third random page some plain
    # words of item first lines become opaque two-part words with an interior double / triple space
    for n, (cid, page, _t) in enumerate(cases):
        if not cid.startswith(("rt", "ix")) or n % 3:
            continue
        for l in page["body"]:
            if l["k"] != "item":
                continue
            for j, w in enumerate(l["w"]):
                if 0 < j and w["c"] == "plain" and w["txt"].isalpha() and rng.random() < 0.4:
                    w["txt"] = w["txt"] + " " * rng.choice([2, 2, 3]) + "gap"
                    ctx.add("inner_gap_words")
    recs = pages.compile_cases(cases, roundtrip=True)
    recs_ok = [r for r in recs if r.get("mode") == "roundtrip"]
    ctx.stage("compile + roundtrip")
    verdicts = pages.tlc_verdicts(recs, ctx, "c12")
    ctx.stage("tlc Trace_Page")
    seen = set()
    for r in recs:
        ctx.add("evaluations")
        seen.add(sig(r))
        v = verdicts[r["id"]]
        if r.get("mode") != "roundtrip":
            continue        # the first compilation failed: C01 / C08 territory, nothing was emitted
        text2 = r["text2"]
        if v["res"] != "ok":
            ctx.violation(f"C12: the page made of the emitted note texts does not compile ({v['res']} {r.get('exc', '')})",
                          {"source": r["id"], "page": r["page"], "today": r["today"], "emitted_page": text2})
            continue
        if v["nexp"] != v["nobs"]:
            ctx.violation(f"C12: emitted page compiles to {v['nobs']} notes, {v['nexp']} were selected",
                          {"source": r["id"], "page": r["page"], "today": r["today"], "emitted_page": text2})
            continue
        if v["bad"]:
            its = [l for l in r["page"]["body"] if l["k"] == "item"]
            # the recorded finding: a done / cancelled todo is emitted without its priority, so a body that itself
            # starts with a priority-shaped word (P0..P9) reads back with that word as the priority
            dropped = {i for i, it in enumerate(its, start=1)
                       if it["kind"] in ("x", "~") and it["w"][0]["txt"] in [f"P{d}" for d in range(10)]}
            if all(i in dropped and f.startswith("rt.") for i, f in v["bad"]):
                ctx.violation("C12: done/cancelled todo whose body starts with a priority-shaped word",
                              {"source": r["id"], "emitted_page": text2}, key="done-todo-body-starts-with-priority-word")
                continue
            i, f = sorted(v["bad"])[0]
            obs = r["notes"][i - 1]["text"] if f == "text" else r["notes2"][i - 1][f[3:]]
            ctx.violation(f"C12: note {i}: {f} is {obs!r}, expected {v['exp'][(i, f)]!r}",
                          {"source": r["id"], "page": r["page"], "today": r["today"], "emitted_page": text2,
                           "differences": [{"note": a, "field": b, "expected": v["exp"][(a, b)]} for a, b in sorted(v["bad"])]})
    # the same texts as zorg emits them through the index: query results and refreshed saved-query pages
    from .. import emit
    by_id = {r["id"]: r for r in recs}
    thru = emit.through_index([r for r in recs if str(r["id"]).startswith("ix")])
    for o in thru:
        if o["skipped"]:
            ctx.add("through_index_skipped")
            continue
        ctx.add("through_index_pages")
        ctx.add("evaluations")
        for kind, what, text in o["problems"]:
            r = by_id[o["id"]]
            ctx.violation(f"C12: {kind}: {what}", {"source": o["id"], "page_text": bp.render_page(r["page"]), "emitted": text,
                                                   "page": r["page"], "today": r["today"]},
                          key="zoq-page-no-final-newline" if kind == "zoq-newline" else None)
    ctx.stage("through the index")
    # the file surgery of the refresh itself: FileOps!ZoqRefresh on every page shape of MC_Zoq
    import json
    from .. import tlc
    rz = tlc.run_tlc("MC_Zoq", cfg="MC_Zoq.cfg")
    ctx.require_tlc_ok(rz, "MC_Zoq: refresh of saved-query pages (Idempotent, HeaderKept, NoAccumulation)")
    ctx.tlc_stats(rz, "MC_Zoq: refresh of saved-query pages")
    zcases = sorted((json.loads(json.loads(l)) for l in rz.output.splitlines() if l.startswith('"{')),
                    key=lambda c: json.dumps(c, sort_keys=True))
    if len(zcases) + 5 != rz.distinct:
        ctx.machinery(f"MC_Zoq emitted {len(zcases)} cases for {rz.distinct} states")
    if ctx.quick:
        zcases = rng.sample(zcases, 320)
    for x in emit.zoq_refresh(zcases):
        if x["case"] is None:
            ctx.machinery(x["problem"])
        ctx.add("evaluations")
        ctx.add("zoq_refresh_cases")
        if x["problem"]:
            which, got, want = x["problem"] if isinstance(x["problem"], tuple) else ("raise", x["problem"], "")
            ctx.violation(f"C12: saved-query page after {'one refresh' if which == 'once' else 'two refreshes' if which == 'twice' else 'refresh'}"
                          f" is not header + separator + stats line + blank + current results: {got[:200]!r}",
                          {"page_before": x["text"], "observed": got, "expected": want})
    ctx.stage("zoq refresh cases")
    # saved-query pages inside the edit loop (refreshed before every editor session, harness/bus.py)
    from . import indexcommon as ic
    ic.edit_loop(ctx, "C12", {"zoq"}, n_quick=16, n_thorough=240)
    ctx.stage("edit loop")
    if not ctx.coverage.get("through_index_pages"):
        ctx.machinery("no page went through the index (query results / saved-query pages were not exercised)")
    ctx.add("traces_validated_against_impl", len(recs_ok))
    ctx.set("distinct_nontrivial", len(seen))
    ctx.set("rule", "pages = states of MC_PageItem (sampled in quick) + random pages; every compiled note is rendered by the real "
                    "Note.to_string and the emitted page recompiled; distinct = distinct item-shape sequences")
    for r in (recs_ok[0], recs_ok[-1]):
        ctx.sample({"page_text": bp.render_page(r["page"])[:400], "emitted_page": r["text2"][:400]})
    ctx.assume("through the index (swog.execute, `zorg edit q.zoq`) only pages whose items all carry distinct ZIDs are used, so that "
               "`db create` leaves the page alone; texts of moved notes are judged by C10")


def replay(ctx, rep):
    case = rep["case"]
    recs = pages.compile_cases([("replay", case["page"], case.get("today", pages.TODAY))], roundtrip=True)
    v = pages.tlc_verdicts(recs, ctx, "replay")["replay"]
    print(recs[0].get("text2"))
    print(v)
    bad = v["res"] != "ok" or v["bad"] or v["nexp"] != v["nobs"]
    print("VIOLATION reproduced" if bad else "no violation")
    return 1 if bad else 0
