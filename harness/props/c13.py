"""C13 - re-running an interrupted index operation converges.

Spec: IndexSteps.tla - create / reindex split at every external effect, Crash, Rerun, invariant Converges; TLC
accepts the hash rule of the repaired code ("fixed") with two crashes and refutes the two earlier orders.
Verdict: fault enumeration on the REAL code, independent of the model's effect order - for each command of
simulated Index.tla behaviours the uninterrupted run is traced through harness/interpose.py, then the command is
killed before each of its external effects (thorough: also with each file write torn at 0 / 50 / 97 %), run again,
and the result must be the state of the uninterrupted run (up to ZID renaming), in agreement, without duplicate
ZIDs."""
from __future__ import annotations

from .. import tlc
from . import indexcommon as ic

LEVEL = "fault_enumeration"


def cats(c: str) -> bool:
    return c.startswith("crash.")


def run(ctx):
    r = tlc.run_tlc("MC_IndexSteps", cfg="MC_IndexSteps_fixed.cfg", coverage=True)
    ctx.require_tlc_ok(r, "MC_IndexSteps_fixed")
    ctx.tlc_stats(r, "MC_IndexSteps_fixed.cfg: effect-level create/reindex, 2 pages, <=2 crashes, hash rule of the repaired code")
    for rule in ("asWas", "naive"):
        r = tlc.run_tlc("MC_IndexSteps", cfg=f"MC_IndexSteps_{rule}.cfg")
        if r.violated != "Converges":
            ctx.machinery(f"IndexSteps with hash rule {rule} should be refuted by TLC (sanity of the model), got {r.violated} {r.error}")
        ctx.coverage.setdefault("design_refutations", []).append(
            {"hash_rule": rule, "violated": r.violated, "states": r.distinct, "depth": r.depth})
    q = ctx.quick
    sims = [("Sim_IndexScript13b.cfg", 3 if q else 16, 6), ("Sim_IndexScript.cfg", 8 if q else 60, 5 if q else 8), ("Sim_IndexEdit.cfg", 2 if q else 60, 6 if q else 12),
            ("Sim_IndexFresh.cfg", 2 if q else 30, 6 if q else 10), ("Sim_IndexAll.cfg", 2 if q else 60, 6 if q else 12)]
    res = ic.tour(ctx, sims, {"crash": True, "torn": not q, "double": 0 if q else 2}, cats, "C13")
    pts = sum(x.get("crash_points", 0) for x in res)
    ctx.set("second_crashes_fired", sum(x.get("second_crashes", 0) for x in res))
    ctx.set("crash_points_executed", pts)
    ctx.set("evaluations", pts)
    effs = {tuple(e) for x in res for e in x.get("effects", [])}
    ctx.set("distinct_effect_sequences", len(effs))
    for e in sorted(effs, key=len)[-2:]:
        ctx.sample({"effects_of_one_command": list(e)})
    ctx.coverage.pop("_sigs", None)
    ctx.set("distinct_nontrivial", len(effs))
    ctx.set("exhaustive", True)
    ctx.set("rule", "scenarios = every create / reindex command of simulated Index.tla behaviours (directories with new notes, "
                    "edited notes, several pages, deleted pages, explicit paths); for each, EVERY boundary between consecutive external "
                    "effects (file write, rename, unlink, database commit) is a crash point" + ("" if q else
                    "; every file write additionally torn at 0 / 50 / 97 %; and two sampled second-order points per boundary "
                    "(the rerun is killed too, the run after it must converge)") + "; distinct = distinct effect sequences")
    ctx.assume("a kill between effects is simulated in-process by raising a BaseException at the effect boundary and dropping the engine; "
               "SQLite's own journal makes a commit atomic")
    ctx.assume("effects are observed at io.open / os.unlink / os.rename / os.replace / SQLAlchemy commit")


def replay(ctx, rep):
    import json
    print(json.dumps(rep["case"], indent=1, default=str)[:4000])
    return 0
