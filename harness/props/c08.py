"""C08 - indexing never crashes on any file and never silently drops a broken one.

(a) compile part - exploration with a TLA+ oracle (Trace_Compile!CompileOK): valid pages,
    valid pages damaged by character / token / line edits, arbitrary strings; the number of
    syntax errors comes from an independent ANTLR listener attached by the harness.
(b) protocol part - the whitelist / refusal rules of `db create` / `db reindex` are actions of
    Index.tla and are model-checked and replayed there (see c08 part b below)."""
from __future__ import annotations

import json
import random

from .. import bind_page as bp
from .. import par, tlc, zenv

LEVEL = "exploration"

TOKENS = ["#" * 32 + " T", "=" * 24 + " S", "+" * 16 + " U", "-" * 8 + " V", "- ", "o ", "x ", "o P1 ", "  * ", "    - ",
          "::", "[[", "]]", "[", "]", "'", '"', "(", ")", "\n", "\n\n", "#", " ", "  ", "P1", "\t", "é", "—", "\r\n",
          "240102#00", "240102", "2024-01-02", "999999", "241939#00", "2024-19-39", "2024-02-30", "240230", "k:: v", "[k:: v w]", "[^X]", "((", "))", "https://", "{", "|",
          "\x00", "\x0c", "~ ", "< ", "> ", "@", "%", "+", "+123", "$", "^", "&", "=", "?", "*", "_", ".", "/", ":", ";", "\\", "`"]
ALPHA = "abcxoP019 -#=+@%[]():'\"\n\n  *~<>_.,/!?{}|$^&"


def damage(rng: random.Random, text: str) -> tuple[str, str]:
    ops = ["delchar", "dupchar", "swapchar", "instok", "delline", "dupline", "swapline", "trunc", "nohead", "indent", "instok"]
    op = rng.choice(ops)
    lines = text.split("\n")
    if op == "delchar" and text:
        i = rng.randrange(len(text))
        return op, text[:i] + text[i + 1:]
    if op == "dupchar" and text:
        i = rng.randrange(len(text))
        return op, text[:i] + text[i] + text[i:]
    if op == "swapchar" and len(text) > 1:
        i = rng.randrange(len(text) - 1)
        return op, text[:i] + text[i + 1] + text[i] + text[i + 2:]
    if op == "instok":
        i = rng.randrange(len(text) + 1)
        if rng.random() < 0.5 and "\n" in text:      # at a line start
            starts = [0] + [j + 1 for j, c in enumerate(text) if c == "\n"]
            i = rng.choice(starts)
        return op, text[:i] + rng.choice(TOKENS) + text[i:]
    if op == "delline" and len(lines) > 1:
        i = rng.randrange(len(lines))
        return op, "\n".join(lines[:i] + lines[i + 1:])
    if op == "dupline":
        i = rng.randrange(len(lines))
        return op, "\n".join(lines[:i] + [lines[i]] + lines[i:])
    if op == "swapline" and len(lines) > 2:
        i = rng.randrange(len(lines) - 1)
        lines[i], lines[i + 1] = lines[i + 1], lines[i]
        return op, "\n".join(lines)
    if op == "trunc" and text:
        return op, text[:rng.randrange(len(text))]
    if op == "nohead":
        return op, text.replace("\n\n", "\n", 1)
    if op == "indent":
        i = rng.randrange(len(lines))
        lines[i] = " " * rng.randint(1, 3) + lines[i]
        return op, "\n".join(lines)
    return "none", text


TRICKY = ["240230", "240431", "230229", "241131", "240631", "240931", "240229", "000000", "999999", "123456", "240100", "241301", "240132",
          "240230#0A", "240431#zz", "230229#00", "241131#0A1", "241939#00", "240100#00", "2024-02-30", "2023-02-29", "2024-04-31", "2024-13-01",
          "2024-00-10", "2024-19-39", "2999-12-31", "2400", "2460", "0060", "P0", "P10", "o", "x", "ox"]


def tricky_pages() -> list:
    """Valid pages in which a date / ZID / time shaped word that is no real date sits at every position that is read specially."""
    out = []
    for w in TRICKY:
        for k, t in enumerate([
                f"# T\n\n- {w} body\n", f"# T\n\no P1 {w} body\n", f"# T\n\n- 240101 {w} body\n", f"# T\n\n- {w}\n",
                f"# T {w}\n\n- a\n", f"# T\n# {w} k::v\n\n- a\n", f"# T\n\n################################ S {w}\n\n- a\n",
                f"# T\n\n- a k:: v\n  * {w}\n  * k2:: {w}\n", f"# T\n\n- 240101#00 x\n  * {w} k:: v\n", f"# T\n\n- due::{w} a\n",
                f"# T\n\n- [k:: {w}] a\n", f"# T\n\n# {w} comment\n- a {w}\n", f"# T\n\nx {w} {w} {w}\n"]):
            out.append((f"tricky-{w}-{k}", "tricky", t))
    return out


def make_texts(seed: int, n: int) -> list:
    rng = random.Random(seed)
    g = bp.Gen(rng)
    out = tricky_pages()
    while len(out) < n:
        base = bp.render_page(g.a_page(n_lines=(2, 12), meta_p=0.3))
        out.append((f"valid{len(out)}", "valid", base))
        for _ in range(6):
            t, how = base, []
            for _ in range(rng.choice([1, 1, 1, 2, 3])):
                op, t = damage(rng, t)
                how.append(op)
            out.append((f"dmg{len(out)}", "+".join(how), t))
        k = rng.random()
        if k < 0.5:
            s = "".join(rng.choice(ALPHA) for _ in range(rng.randint(0, 80)))
            out.append((f"str{len(out)}", "random-string", s))
        elif k < 0.75:
            s = "# T\n\n" + "".join(rng.choice(ALPHA) for _ in range(rng.randint(1, 60))) + "\n"
            out.append((f"str{len(out)}", "random-body", s))
        else:
            out.append((f"bin{len(out)}", "random-bytes", bytes(rng.randrange(256) for _ in range(rng.randint(0, 60)))))
    return out[:max(n, len(tricky_pages()) + 200)]


class _Count:
    def __init__(self):
        self.n = 0


def _independent_parse(path):
    """The harness's own parse: (syntax errors reported to the parser, items with a non-blank body)."""
    import antlr4
    from antlr4.error.ErrorListener import ErrorListener
    from zorg.grammar.zorg_file.ZorgFileLexer import ZorgFileLexer
    from zorg.grammar.zorg_file.ZorgFileParser import ZorgFileParser

    class L(ErrorListener):
        def __init__(self):
            super().__init__()
            self.n = 0

        def syntaxError(self, recognizer, offendingSymbol, line, column, msg, e):
            self.n += 1

    stream = antlr4.FileStream(str(path), errors="ignore")
    lexer = ZorgFileLexer(stream)
    lexer.removeErrorListeners()
    parser = ZorgFileParser(antlr4.CommonTokenStream(lexer))
    parser.removeErrorListeners()
    lst = L()
    parser.addErrorListener(lst)
    tree = parser.prog()
    items = 0
    stack = [tree]
    while stack:
        node = stack.pop()
        if isinstance(node, (ZorgFileParser.Base_noteContext, ZorgFileParser.Base_todoContext)):
            nb = node.note_body()
            if nb is not None and nb.getText().strip() != "":
                items += 1
        for i in range(node.getChildCount() if hasattr(node, "getChildCount") else 0):
            stack.append(node.getChild(i))
    return lst.n, items


def _compile_chunk(cases: list) -> list:
    import contextlib
    import io
    zenv.set_day("2024-06-01")
    env = zenv.ZEnv()
    out = []
    for rid, how, text in cases:
        p = env.path("t.zo")
        p.write_bytes(text if isinstance(text, bytes) else text.encode("utf-8"))
        rec = {"id": rid, "raised": False, "hasErrors": False, "nNotes": 0, "parserErrors": 0, "parsedItems": 0}
        err = io.StringIO()
        with contextlib.redirect_stderr(err):
            try:
                rec["parserErrors"], rec["parsedItems"] = _independent_parse(p)
            except Exception as e:  # noqa: BLE001 - the parser itself failing is reported as raised below
                rec["parse_exc"] = repr(e)
            try:
                pg = env.compile("t.zo")
                rec["hasErrors"] = bool(pg.has_errors)
                rec["nNotes"] = len(pg.notes)
            except Exception as e:  # noqa: BLE001
                rec["raised"] = True
                rec["exc"] = repr(e)
        out.append(rec)
    env.cleanup()
    return out


def run(ctx):
    n = 2500 if ctx.quick else 60000
    texts = make_texts(ctx.seed + 8, n)
    by_id = {t[0]: t for t in texts}
    chunks = [texts[i:i + 60] for i in range(0, len(texts), 60)]
    recs = [r for part in par.pmap(_compile_chunk, chunks, chunk=1) for r in part]
    f = tlc.scratch_root() / "compile.ndjson"
    with open(f, "w") as fh:
        for r in recs:
            fh.write(json.dumps({k: r[k] for k in ("id", "raised", "hasErrors", "nNotes", "parserErrors", "parsedItems")}) + "\n")
    res = tlc.run_tlc("Trace_Compile", env={"ZV_TRACE": str(f)})
    if not res.ok:
        ctx.machinery(f"Trace_Compile failed: {res.error}\n{res.output[-2000:]}")
    bad = {}
    for line in res.output.splitlines():
        if line.startswith('"[\\"BAD\\"'):
            t = json.loads(json.loads(line))
            bad[t[1]] = t[2]
    ctx.add("states", res.distinct)
    ctx.add("transitions", res.generated)
    recd = {r["id"]: r for r in recs}
    classes = {}
    for rid, clauses in bad.items():
        r = recd[rid]
        for c in clauses:
            k = c + (":" + r.get("exc", "").split("(")[0] if c == "raised" else "")
            classes.setdefault(k, []).append(rid)
    for k, ids in sorted(classes.items()):
        rid = min(ids, key=lambda i: len(by_id[i][2]))
        r, (_, how, text) = recd[rid], by_id[rid]
        ctx.violation(f"compile: {k} on {len(ids)} text(s); smallest: {text!r} -> {json.dumps({x: r[x] for x in r if x != 'id'})}",
                      {"text": text if isinstance(text, str) else list(text), "how": how, "record": r, "count": len(ids),
                       "others": [by_id[i][2] if isinstance(by_id[i][2], str) else list(by_id[i][2]) for i in ids[1:6]]},
                      key="compile-" + k)
    ctx.set("evaluations", len(recs))
    kinds = {}
    for r in recs:
        how = by_id[r["id"]][1]
        kinds[how.split("+")[0]] = kinds.get(how.split("+")[0], 0) + 1
    ctx.set("by_generator", kinds)
    ctx.set("texts_with_parser_errors", sum(1 for r in recs if r["parserErrors"] > 0))
    ctx.set("texts_without_parser_errors", sum(1 for r in recs if r["parserErrors"] == 0))
    ctx.set("distinct_nontrivial", len({by_id[r["id"]][2] for r in recs if len(by_id[r["id"]][2]) > 3}))
    ctx.set("rule", "valid random pages; each damaged 6 times by 1-3 character/token/line edits; random strings over and outside "
                    "the grammar's alphabet; random bytes. distinct = distinct texts longer than 3 characters")
    for t in (texts[0], texts[3], texts[7]):
        ctx.sample({"how": t[1], "text": t[2][:200] if isinstance(t[2], str) else list(t[2][:40])})
    protocol_part(ctx)
    ctx.assume("parser syntax errors are counted by the harness's own ANTLR ErrorListener on the same generated parser")
    ctx.assume("an item whose body is blank is not counted as a note (the property does not say)")


def protocol_part(ctx):
    """(b) refusal / whitelist protocol: Index.tla BreakPage / FixPage / DbCreate(force) / DbCreateRefused /
    DbReindexRefused / BrokenOnlyIfWhitelisted, model-checked exhaustively and replayed on real directories."""
    from . import indexcommon as ic
    ic.design(ctx, [("MC_IndexBreak.cfg", "2 pages, break / fix, create with and without -f, reindex, refusals")])

    def cats(c):
        return c.startswith(("refusal.", "db.", "files.", "command.failed", "agreement.", "whitelist."))

    # the reindex that follows an editor session must refuse an unparsable page as well (harness/bus.py)
    ic.edit_loop(ctx, "C08 protocol", {"refusal"}, n_quick=16, n_thorough=200)
    ic.tour(ctx, [("Sim_IndexBreak.cfg", 30 if ctx.quick else 600, 10)], {"idempotence": False, "rebuild": False}, cats,
            "C08 protocol")
    # page names in substring relation: the whitelist must be matched by whole paths
    ic.tour(ctx, [("Sim_IndexBreak.cfg", 15 if ctx.quick else 600, 10), ("Sim_IndexScript08.cfg", 30 if ctx.quick else 300, 7)],
            {"idempotence": False, "rebuild": False, "names": {1: "odo.zo", 2: "archive/todo.zo"}}, cats, "C08 protocol")
    ctx.coverage.pop("_sigs", None)
    # the recorded finding, at the protocol level: a broken page without any parsed item is indexed as an empty page
    env = zenv.ZEnv()
    try:
        zenv.set_day("2024-06-01")
        env.write("ok.zo", "# Fine\n\n- a note\n")
        env.write("broken.zo", "# T\n- an item before the blank line\n")
        r = env.db_create()
        pages = {x["page_path"] for x in env.db_notes()}
        import sqlite3
        idx = []
        if env.db_path.exists():
            con = sqlite3.connect(env.db_path)
            idx = [row[0] for row in con.execute("SELECT path FROM page")]
            con.close()
        if r.ok and "broken.zo" in idx:
            ctx.violation("db create indexed an unflagged broken page as an empty page",
                          {"files": env.pages(), "indexed_pages": idx}, key="compile-broken-page-not-flagged-no-items")
        ctx.add("evaluations")
    finally:
        env.cleanup()


def replay(ctx, rep):
    case = rep["case"]
    text = case["text"] if isinstance(case["text"], str) else bytes(case["text"])
    r = _compile_chunk([("replay", "replay", text)])[0]
    print(repr(text))
    print(r)
    return 0
