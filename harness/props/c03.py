"""C03 - a WHERE filter returns exactly the indexed notes that satisfy it.

Spec: Filter.tla (Sat / Result over a universe of notes).  S->I: TLC (MC_Filter) enumerates every atom of the
atom table and the compositions `a b`, `a | b`, `(a | b) c`, `c (a | b c) | a` over the basis, evaluates
Result on the designed universe U0 (read from the real index), and each query text is run through the real
build_zorg_query + SQLRepo.get_notes_by_query on the real SQLite index.  I->S: random directories x random query
texts; the compiled WHERE structure is projected, the real answer recorded, and TLC (Trace_Filter) evaluates
Result on the universe read from the raw rows."""
from __future__ import annotations

import json
import random
import shutil

from .. import bind_page as bp
from .. import bind_query as bq
from .. import par, tlc, zenv
from ..main import VERIF

LEVEL = "model_checking"
_ENV = {}


def _u0_env():
    if "u0" not in _ENV:
        zenv.set_day("2024-06-01")
        e = zenv.ZEnv()
        shutil.copytree(VERIF / "corpus" / "u0", e.zdir, dirs_exist_ok=True)
        r = e.db_create()
        if not r.ok:
            raise RuntimeError("db create on the designed universe failed: " + r.out[-300:])
        _ENV["u0"] = e
    return _ENV["u0"]


def _run_chunk(args):
    zdir, texts = args
    from zorg.service.compiler import build_zorg_query
    import contextlib, io
    env = zenv.ZEnv.__new__(zenv.ZEnv)
    from pathlib import Path
    env.zdir = Path(zdir)
    env.root = env.zdir.parent
    out = []
    for t in texts:
        err = io.StringIO()
        try:
            with contextlib.redirect_stderr(err):
                q = build_zorg_query("W " + t)
            obs = bq.run_where(env, q.where)
            out.append({"txt": t, "obs": obs, "where": bq.proj_or(q.where), "stderr": err.getvalue()[:200]})
        except Exception as e:  # noqa: BLE001
            out.append({"txt": t, "exc": repr(e), "obs": [], "where": []})
    return out


def run_queries(env, texts: list) -> list:
    n = max(1, min(60, -(-len(texts) // (par.NPROC * 2))))
    chunks = [(str(env.zdir), texts[i:i + n]) for i in range(0, len(texts), n)]
    return [r for part in par.pmap(_run_chunk, chunks, chunk=1) for r in part]


# ---------------------------------------------------------------- random queries
def vocab_of(rows: list) -> dict:
    v = {"tags": {"areas": set(), "contexts": set(), "people": set(), "projects": set()}, "keys": {}, "words": set(),
         "pages": set(), "dates": set(), "links": set()}
    for r in rows:
        for ty in v["tags"]:
            v["tags"][ty].update(r[ty])
        for k, val in r["properties"].items():
            v["keys"].setdefault(k, set()).add(val)
        v["words"].update(w for w in r["body"].replace("\n", " ").split(" ") if 2 <= len(w) <= 12 and "'" not in w and '"' not in w)
        v["pages"].add(r["page_path"][:-3])
        v["dates"].update([r["create_date"], r["modify_date"]])
        v["links"].update(l.split("#")[0] for l in r["links"] if ":" not in l)
    return v


SYM = {"areas": "#", "contexts": "@", "people": "%", "projects": "+"}


def rand_atom(rng, v) -> str:
    x = rng.random()
    neg = "!" if rng.random() < 0.3 else ""
    if x < 0.12:
        return "".join(sorted(set(rng.choice("-ox~<>") for _ in range(rng.randint(1, 3))), key="-o<>~x".index)).replace("ox", "o").replace("xo", "x") or "o"
    if x < 0.22:
        a = rng.randint(0, 9)
        b = rng.randint(max(a, 1), 9)
        return f"P{a}" if rng.random() < 0.4 or b <= a else f"P{a}-{b}"
    if x < 0.40:
        ty = rng.choice(list(SYM))
        names = sorted(v["tags"][ty]) + ["zz_none"]
        return neg + SYM[ty] + rng.choice(names)
    if x < 0.50 and v["dates"]:
        d = rng.choice(sorted(v["dates"]))
        s = d[2:4] + d[5:7] + d[8:10]
        head = rng.choice("^$")
        if rng.random() < 0.5:
            e = rng.choice(sorted(v["dates"]))
            lo, hi = sorted([d, e])
            return f"{head}{lo[2:4]}{lo[5:7]}{lo[8:10]}:{hi[2:4]}{hi[5:7]}{hi[8:10]}"
        return head + s
    if x < 0.66 and v["keys"]:
        k = rng.choice(sorted(v["keys"]))
        vals = sorted(v["keys"][k])
        if rng.random() < 0.3:
            return f"{neg}{k}:*"
        val = rng.choice(vals)
        if not (val.isalnum() or val.replace("-", "").isdigit()) or val in ("o", "x") or (val.isdigit() and len(val) == 1 and val != "0"):
            return f"{neg}{k}:*"
        # a compared key must hold values of one type (DESIGN don't-care): dates / integers / words
        if all(bq._dval(x_) for x_ in vals) or all(x_.isdigit() for x_ in vals):
            return f"{neg}{k}:{rng.choice(['', '<', '<=', '>', '>='])}{val}"
        if val.isdigit() or bq._dval(val):
            return f"{neg}{k}:*"
        return f"{neg}{k}:{rng.choice(['', '<', '<=', '>', '>='])}{val}"
    if x < 0.82 and v["words"]:
        w = rng.choice(sorted(v["words"]))
        i = rng.randrange(len(w))
        sub = w[i:i + rng.randint(1, 6)]
        if rng.random() < 0.3:
            sub = sub.swapcase()
        if not sub.strip():
            sub = w
        return f"{neg}{'c' if rng.random() < 0.3 else ''}'{sub}'"
    if x < 0.92:
        p = rng.choice(sorted(v["pages"]))
        form = rng.random()
        base = p.split("/")[-1]
        if form < 0.4:
            return f"{neg}f={p}"
        if form < 0.6:
            return f"{neg}f={p[:max(1, len(p) // 2)]}*"
        if form < 0.8:
            return f"{neg}f=*{base[-2:]}" if base[-2:].isalnum() else f"{neg}f={p}"
        return f"{neg}f=*_{base.split('_')[-1]}" if "_" in base else f"{neg}f={p}*"
    targets = sorted(v["links"] | v["pages"])
    return f"{neg}[[{rng.choice(targets)}]]" if targets else "o"


def rand_query(rng, v, depth=0) -> str:
    n = rng.randint(1, 3)
    parts = []
    for _ in range(n):
        if depth < 2 and rng.random() < 0.2:
            parts.append("(" + rand_query(rng, v, depth + 1) + " | " + rand_query(rng, v, depth + 1) + ")")
        else:
            parts.append(rand_atom(rng, v))
    q = " ".join(parts)
    if depth == 0 and rng.random() < 0.3:
        q += " | " + rand_query(rng, v, 1)
    return q


def _rand_universe(args):
    seed, npages = args
    zenv.set_day("2024-06-01")
    rng = random.Random(seed)
    g = bp.Gen(rng)
    env = zenv.ZEnv()
    names = ["a", "b", "sub/bb", "c_log", "cxlog", "n_1"][:npages]
    for nm in names:
        page = g.a_page(n_lines=(4, 12), meta_p=0.45)
        # every note gets a ZID-less start; links point at sibling pages now and then
        env.write(nm + ".zo", bp.render_page(page).replace("[[pg1]]", f"[[{rng.choice(names)}]]").replace("[[projects]]", f"[[{rng.choice(names)}]]"))
    r = env.db_create()
    if not r.ok:
        env.cleanup()
        return None
    rows = env.db_notes()
    # duplicate ZIDs written by the generator would make get_notes_by_query ambiguous: outside the property
    zids = [x["zid"] for x in rows]
    if len(set(zids)) != len(zids):
        env.cleanup()
        return None
    return str(env.root), rows


def run(ctx):
    rng = random.Random(ctx.seed)
    # ---- S->I on the designed universe
    env = _u0_env()
    rows = env.db_notes()
    U0 = bq.universe(rows)
    root = tlc.scratch_root()
    (root / "u0.json").write_text(json.dumps({"notes": U0}))
    depth = 2 if ctx.quick else 3
    r = tlc.run_tlc("MC_Filter", cfg=f"MC_Filter_d{depth}.cfg",
                    env={"ZV_ATOMS": str(VERIF / "corpus" / "filter_atoms.json"), "ZV_UNIV": str(root / "u0.json")})
    if not r.ok:
        ctx.machinery(f"MC_Filter: {r.violated} {r.error}\n{r.output[-2000:]}")
    ctx.tlc_stats(r, f"MC_Filter depth {depth}: atoms and compositions evaluated on U0 ({len(U0)} notes)")
    cases = {}
    for line in r.output.splitlines():
        if line.startswith('"{'):
            c = json.loads(json.loads(line))
            cases[c["txt"]] = c
    if len(cases) < 80:
        ctx.machinery(f"MC_Filter emitted only {len(cases)} cases")
    texts = sorted(cases)
    if ctx.quick:
        atoms_only = [t for t in texts if " " not in t or t.startswith(("'", "!'", "c'", "!c'", '"'))]
        texts = sorted(set(atoms_only) | set(rng.sample(texts, min(len(texts), 700))))
    obs = run_queries(env, texts)
    recs = []
    for o in obs:
        ctx.add("evaluations")
        c = cases[o["txt"]]
        exp = sorted("".join(map(chr, z)) for z in c["exp"])
        if "exc" in o:
            ctx.violation(f"query `W {o['txt']}` raised {o['exc']}", {"universe": "corpus/u0", "query": o["txt"], "exception": o["exc"]})
            continue
        if sorted(o["obs"]) != exp:
            ctx.violation(f"`W {o['txt']}` on the designed universe returned {sorted(o['obs'])}, Filter.tla says {exp}",
                          {"universe": "corpus/u0", "query": o["txt"], "observed": sorted(o["obs"]), "expected": exp,
                           "missing": sorted(set(exp) - set(o["obs"])), "extra": sorted(set(o["obs"]) - set(exp))})
        recs.append({"id": f"u0-{len(recs)}", "u": 1, "where": o["where"], "obs": o["obs"], "txt": o["txt"]})
    ctx.set("designed_universe_queries", len(obs))
    ctx.sample({"universe": "corpus/u0 (13 notes on 5 pages)", "queries": texts[:3] + texts[-3:]})
    # ---- I->S on random universes
    n_univ = 6 if ctx.quick else 60
    n_q = 60 if ctx.quick else 250
    made = [u for u in par.pmap(_rand_universe, [(ctx.seed * 1000 + i, rng.randint(3, 6)) for i in range(n_univ)], chunk=1) if u]
    universes = [U0]
    for k, (rootdir, urows) in enumerate(made, start=2):
        from pathlib import Path
        e = zenv.ZEnv.__new__(zenv.ZEnv)
        e.root, e.zdir = Path(rootdir), Path(rootdir) / "org"
        v = vocab_of(urows)
        qs = sorted({rand_query(rng, v) for _ in range(n_q)})
        universes.append(bq.universe(urows))
        for o in run_queries(e, qs):
            ctx.add("evaluations")
            if "exc" in o:
                ctx.violation(f"query `W {o['txt']}` raised {o['exc']}", {"pages": e.pages(), "query": o["txt"], "exception": o["exc"]})
                continue
            recs.append({"id": f"u{k}-{len(recs)}", "u": k, "where": o["where"], "obs": o["obs"], "txt": o["txt"], "dir": rootdir})
        if k == 2:
            ctx.sample({"random_universe_pages": list(e.pages())[:6], "queries": qs[:6]})
    verdicts = bq.tlc_filter_verdicts(universes, recs, ctx, "c03")
    for rcd in recs:
        missing, extra = verdicts[rcd["id"]]
        if missing or extra:
            pages = None
            if "dir" in rcd:
                from pathlib import Path
                pages = {str(p.relative_to(Path(rcd["dir"]) / "org")): p.read_text() for p in (Path(rcd["dir"]) / "org").rglob("*.zo")}
            ctx.violation(f"`W {rcd['txt']}`: the real index returned {len(rcd['obs'])} notes; missing {missing}, extra {extra}",
                          {"query": rcd["txt"], "where": rcd["where"], "observed": rcd["obs"], "missing": missing, "extra": extra,
                           "pages": pages or "corpus/u0"})
    ctx.add("traces_validated_against_impl", len(recs))
    ctx.set("distinct_nontrivial", len({r_["txt"] for r_ in recs}))
    ctx.set("rule", "queries = every atom / composition TLC enumerated on the designed universe (sampled in quick) + random queries "
                    "built from the vocabulary of random universes; distinct = distinct query texts")
    ctx.assume("values under a compared property key are of one type (dates / integers / words); page names and globs are lower-case ASCII")
    ctx.assume("generated directories whose hand-written ZIDs collide are skipped (ZIDs come from the allocator in real use)")
    for rootdir, _ in made:
        shutil.rmtree(rootdir, ignore_errors=True)
    env.cleanup()
    _ENV.clear()


def replay(ctx, rep):
    print(json.dumps(rep["case"], indent=1, default=str)[:5000])
    return 0
