"""C17 - `action open` offers and opens exactly the link targets on the line.

Spec: ActionOpen.tla (Targets as a fold with the "identity position passed" flag, Open, Respond, OptionLaw).  TLC
(MC_Action) enumerates lines: 6 prefixes x bodies of up to 2 (quick) / 3 (thorough) words over plain words, ZIDs,
page links with and without anchors, local / global / reference links, punctuation wrappings x page type x option
index, checks OptionLaw on the specification and emits the expected protocol messages.  Each line is written into a
page of a designed indexed directory and `zorg action open PAGE LINE [OPTION]` runs through main(); the messages on
stdout must be the expected ones (kind; argument for EDIT / SEARCH / PROMPT)."""
from __future__ import annotations

import json
import random
import shutil
from pathlib import Path

from .. import par, tlc, zenv
from ..main import VERIF
from . import c03

LEVEL = "model_checking"
SEARCH_END = "\\ze\\(\\s\\|[),.?!;:]\\|$\\)"


def _parse(out: str, zdir: str) -> list:
    msgs = []
    for line in out.split("\n"):
        if not line:
            continue
        kind, _, arg = line.partition(" ")
        if kind not in ("EDIT", "SEARCH", "PROMPT", "ECHO"):
            msgs.append(["NOT-A-PROTOCOL-MESSAGE", line])
            continue
        if kind == "ECHO":
            arg = ""
        if kind == "EDIT":
            arg = arg.replace(zdir, "<Z>")
        if kind == "SEARCH":
            if arg.endswith(SEARCH_END):
                arg = arg[:-len(SEARCH_END)]
            if arg.startswith("\\s\\zs"):
                arg = arg[len("\\s\\zs"):]
        msgs.append([kind, arg])
    return msgs


def _chunk(args):
    src, cases = args
    import subprocess
    zenv.set_day("2024-06-01")
    env = zenv.ZEnv()
    shutil.copytree(src, env.zdir, dirs_exist_ok=True)
    real_run = subprocess.run
    subprocess.run = lambda *a, **k: subprocess.CompletedProcess(a, 0)      # `open URL` must never really run
    bad = []
    try:
        for c in cases:
            rel = "probe.zoq" if c["zoq"] else "probe.zo"
            head = "# W o\n#\n# SAVED QUERY GENERATED ON 2024-06-01 AT 12:00:00.\n\n" if c["zoq"] else "# Probe page\n\n"
            env.write(rel, head + c["text"] + "\n")
            lineno = head.count("\n") + 1
            opt = [] if c["opt"] == 0 else ["-1"] if c["opt"] == 99 else [str(c["opt"])]
            r = env.main("action", "open", str(env.path(rel)), str(lineno), *opt)
            got = _parse(r.out, str(env.zdir))
            if r.exc is not None or got != [list(m) for m in c["exp"]]:
                bad.append({"line": c["text"], "zoq": c["zoq"], "opt": c["opt"], "expected": c["exp"], "observed": got, "rc": r.rc,
                            "exc": repr(r.exc) if r.exc else None})
    finally:
        subprocess.run = real_run
        env.cleanup()
    return bad


def run(ctx):
    rng = random.Random(ctx.seed)
    r = tlc.run_tlc("MC_Action", cfg="MC_Action_FALSE.cfg" if ctx.quick else "MC_Action_TRUE.cfg")
    if not r.ok:
        ctx.machinery(f"MC_Action: {r.violated} {r.error}\n{r.output[-1500:]}")
    ctx.tlc_stats(r, "MC_Action: prefixes x bodies x page type x option index (OptionLaw checked on every case)")
    cases = sorted((json.loads(json.loads(l)) for l in r.output.splitlines() if l.startswith('"{')), key=lambda c: json.dumps(c, sort_keys=True))
    if len(cases) < 1000 or len(cases) > r.distinct:
        ctx.machinery(f"MC_Action emitted {len(cases)} cases for {r.distinct} states")
    env = c03._u0_env()
    # the owner table of MC_Action must describe the designed universe
    rows = env.db_notes()
    facts = {("ID", "gid1"): "b.zo", ("RID", "rid1"): "b.zo", ("ZID", "240301#01"): "a.zo", ("ZID", "240310#00"): "b.zo", ("ZID", "240201#00"): "sub/bb.zo", ("ZID", "240117#00"): "cxlog.zo"}
    for (k, v), page in facts.items():
        owners = {x["page_path"] for x in rows if (x["zid"] == v if k == "ZID" else x["properties"].get(k) == v)}
        if owners != {page}:
            ctx.machinery(f"designed universe does not match MC_Action!Owner: {k} {v} is owned by {owners}")
    # thorough: TLC checks OptionLaw on all ~200k cases; the real CLI runs a 60k sample of them (each case is one `main()` call,
    # ~100 / s on 16 cores - the full set did not finish in two hours next to other work)
    pool = rng.sample(cases, min(len(cases), 2500 if ctx.quick else 60000))
    jobs = [(str(env.zdir), pool[i:i + 80]) for i in range(0, len(pool), 80)]
    bad = [b for part in par.pmap(_chunk, jobs, chunk=1) for b in part]
    groups = {}
    for b in bad:
        exp_kinds = tuple(m[0] for m in b["expected"])
        obs_kinds = tuple(m[0] for m in b["observed"])
        words = b["line"].split(" ")
        # recorded finding: a ZID directly after the primary ZID (or after a target in identity position) is not offered
        groups.setdefault((exp_kinds, obs_kinds), []).append(b)
    for (ek, ok), items in sorted(groups.items()):
        b = min(items, key=lambda x: len(x["line"]))
        ctx.violation(f"{len(items)} line(s): expected messages {list(ek)}, got {list(ok)}; e.g. line `{b['line']}` (zoq={b['zoq']}, option {b['opt']}): "
                      f"expected {b['expected']} observed {b['observed']}",
                      {"count": len(items), "example": b, "more": [x["line"] for x in items[1:8]]})
    ctx.set("evaluations", len(pool))
    ctx.add("traces_validated_against_impl", len(pool))
    ctx.set("distinct_nontrivial", len(pool))
    ctx.set("cases_enumerated_by_tlc", len(cases))
    ctx.set("rule", "cases = (line, page type, option) triples TLC enumerated (OptionLaw checked on all of them), a random sample "
                    "of 2,500 (quick) / 60,000 (thorough) run through the real CLI; all distinct")
    ctx.sample({"line": pool[0]["text"], "zoq": pool[0]["zoq"], "opt": pool[0]["opt"], "expected": pool[0]["exp"]})
    ctx.assume("ECHO texts are not compared; SEARCH arguments are compared without zorg's regex prefix / suffix; `open` is stubbed")
    env.cleanup()
    c03._ENV.clear()


def replay(ctx, rep):
    print(json.dumps(rep["case"], indent=1, default=str)[:5000])
    return 0
