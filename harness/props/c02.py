"""C02 - notes inherit metadata from the page title and the enclosing sections only.

Spec: PageSem.NoteOf (tree-based) refined by PageWalk (per-scope stores + resets).
Design level: MC_PageSkel - every legal header sequence up to the bound, every scope carrying
its own unique tags / link / property / shared key / optional date: RefinesSem, NoLeak,
LegalAgrees; the same on deep skeletons (up to 6 / 7 headers of any legal level sequence, one note under each:
what a closed sibling or cousin section left behind shows in the next note).  Binding: every page of the deterministic-decoration configuration is compiled by
the real compiler and its tags, links, properties and create date compared by TLC; random pages
with dense metadata (shared names between scopes, digits-only tags, quoted and bullet
properties, [^X]) go the same way."""
from __future__ import annotations

from .. import pages
from . import pagecommon as pc

LEVEL = "model_checking"
FIELDS = {"count", "tags", "links", "props", "cdate"}


def sig(rec):
    return tuple((l["k"], l.get("lvl", 0), any(w["c"] == "ldate" for w in l.get("w", []))) for l in rec["page"]["body"])


def run(ctx):
    design_cfg = "MC_PageSkel_quick.cfg" if ctx.quick else "MC_PageSkel.cfg"
    _, r = pages.pages_from_tlc("MC_PageSkel", design_cfg, None, emit=False)
    ctx.require_tlc_ok(r, design_cfg)
    ctx.tlc_stats(r, f"{design_cfg}: all skeletons x own-decoration x date choices (design level)")
    replay_cfg = "MC_PageSkel_replayq.cfg" if ctx.quick else "MC_PageSkel_replay.cfg"
    skel, _ = pages.pages_from_tlc("MC_PageSkel", replay_cfg, ctx, f"{replay_cfg}: replay configuration")
    skel = [p for p in skel if p["body"]]
    if ctx.quick:       # a full page contains each of its prefixes (the walk only appends, the tree only looks back)
        top = max(len(p["body"]) for p in skel)
        skel = [p for p in skel if len(p["body"]) == top]
    # deep skeletons: every legal sequence of up to 6 (thorough: 7) headers, one undecorated note under each
    deep_cfg = "MC_PageSkel_deep.cfg" if ctx.quick else "MC_PageSkel_deep7.cfg"
    deep, _ = pages.pages_from_tlc("MC_PageSkel", deep_cfg, ctx, f"{deep_cfg}: deep skeletons, one note per section")
    deep = [p for p in deep if p["body"] and p["body"][-1]["k"] == "item"]
    if ctx.quick:       # (as above: the longest pages contain the shorter ones)
        deep = [p for p in deep if sum(1 for l in p["body"] if l["k"] == "sec") >= 5]
    ctx.set("tlc_skeleton_pages", len(skel))
    ctx.set("tlc_deep_skeleton_pages", len(deep))
    cases = [(f"skel{i}", p, pages.TODAY) for i, p in enumerate(skel)] + [(f"deep{i}", p, pages.TODAY) for i, p in enumerate(deep)]
    cases += pc.random_cases(ctx.seed + 2, 150 if ctx.quick else 4000, lines=(10, 45), meta_p=0.6)
    recs = pages.compile_cases(cases)
    verdicts = pages.tlc_verdicts(recs, ctx, "c02")
    pc.check_records(ctx, recs, verdicts, FIELDS, "C02", sig)
    ctx.add("traces_validated_against_impl", len(recs))
    from .. import bind_page as bp
    for r_ in (recs[len(skel) // 2], recs[-1]):
        ctx.sample({"page_text": bp.render_page(r_["page"])[:700], "notes_compiled": len(r_["notes"])})
    pc.finish_nontrivial(ctx, "pages = every state of the MC_PageSkel replay configuration + random pages with dense metadata; "
                              "distinct = distinct sequences of (line kind, header level, carries a date)")
    ctx.assume("each generated note uses one bullet level for property bullets; a property bullet is followed only by bullets")
    ctx.assume("no date-valued property in a header (whether it dates the section is not stated by the property)")


def replay(ctx, rep):
    return pc.replay_case(ctx, rep, FIELDS)
