"""C15 - a saved-query reference filters like the saved query's WHERE clause.

Spec: SavedQ.tla (Subst on filter trees, RefLaw).  TLC (MC_SavedQ) enumerates acyclic sets of saved query pages
qa -> qb -> qc (conjunctions, alternatives, parenthesised groups, nested references; S / O / G clauses around the
WHERE clause) and referencing queries, and computes Filter!Result of the substituted tree on the designed universe.
Binding: the .zoq pages are written, the referencing query goes through the real expand_saved_queries +
build_zorg_query + index, and the returned ZIDs must be TLC's; a reference to a missing page must be an error."""
from __future__ import annotations

import json
import random
from pathlib import Path

from .. import bind_query as bq
from .. import par, tlc, zenv
from ..main import VERIF
from . import c03

LEVEL = "model_checking"


def _chunk(args):
    zdir, cases = args
    import contextlib
    import io
    import shutil
    import sys
    from zorg.service.compiler import build_zorg_query
    from zorg.service.swog._saved_queries import expand_saved_queries
    zenv.set_day("2024-06-01")
    src = Path(zdir)
    env = zenv.ZEnv()
    shutil.copytree(src, env.zdir, dirs_exist_ok=True)
    out = []
    sys.setrecursionlimit(2000)
    for c in cases:
        zoq = env.zdir / "zoq"
        shutil.rmtree(zoq, ignore_errors=True)
        zoq.mkdir()
        for name, line in c["files"].items():
            (zoq / f"{name}.zoq").write_text(f"# {line}\n#\n# SAVED QUERY GENERATED ON 2024-06-01 AT 12:00:00.\n\n- old result line\n")
        rec = {"txt": c["txt"], "files": c["files"]}
        try:
            with contextlib.redirect_stderr(io.StringIO()):
                expanded = expand_saved_queries(env.zdir, c["txt"])
                rec["expanded"] = expanded
                if expanded is None:
                    rec["obs"] = None
                else:
                    rec["obs"] = sorted(bq.run_where(env, build_zorg_query(expanded).where))
        except RecursionError:
            rec["exc"] = "RecursionError (expansion does not terminate)"
        except Exception as e:  # noqa: BLE001
            rec["exc"] = repr(e)
        out.append(rec)
    env.cleanup()
    return out


def run(ctx):
    rng = random.Random(ctx.seed)
    env = c03._u0_env()
    root = tlc.scratch_root()
    (root / "u0.json").write_text(json.dumps({"notes": bq.universe(env.db_notes())}))
    r = tlc.run_tlc("MC_SavedQ", env={"ZV_ATOMS": str(VERIF / "corpus" / "filter_atoms.json"), "ZV_UNIV": str(root / "u0.json")})
    if not r.ok:
        ctx.machinery(f"MC_SavedQ: {r.error}\n{r.output[-1500:]}")
    ctx.tlc_stats(r, "MC_SavedQ: saved-query sets x referencing queries, expected results on U0")
    cases = sorted((json.loads(json.loads(l)) for l in r.output.splitlines() if l.startswith('"{')),
                   key=lambda c: json.dumps(c, sort_keys=True))
    if len(cases) != r.distinct:
        ctx.machinery(f"MC_SavedQ emitted {len(cases)} cases for {r.distinct} states")
    pool = cases if not ctx.quick else rng.sample(cases, 900)
    jobs = [(str(env.zdir), pool[i:i + 40]) for i in range(0, len(pool), 40)]
    exp = {json.dumps([c["txt"], c["files"]], sort_keys=True): sorted("".join(map(chr, z)) for z in c["exp"]) for c in pool}
    asb = {json.dumps([c["txt"], c["files"]], sort_keys=True): sorted("".join(map(chr, z)) for z in c["asbuilt"]) for c in pool}
    bad = {}
    n = 0
    for part in par.pmap(_chunk, jobs, chunk=1):
        for rec in part:
            n += 1
            want = exp[json.dumps([rec["txt"], rec["files"]], sort_keys=True)]
            if "exc" in rec:
                bad.setdefault("exception", []).append((rec, want))
            elif rec["obs"] is None:
                bad.setdefault("reported-missing-although-present", []).append((rec, want))
            elif rec["obs"] != want:
                # the class: does the saved clause that is substituted contain alternatives at its top level?
                import re
                # kinds / priorities of ONE and-group pool into a set: when a saved clause is pasted next to another kind or
                # priority atom the two sets merge instead of intersecting (the recorded finding)
                def pooled(text):
                    flat = re.sub(r"[()]", " ", text or "")
                    for conj in flat.split(" | "):
                        toks = [t for t in conj.split() if re.fullmatch(r"[-ox~<>]+|P\d(-\d)?", t)]
                        if len([t for t in toks if not t.startswith("P")]) >= 2 or len([t for t in toks if t.startswith("P")]) >= 2:
                            return True
                    return False
                # ... and it explains a wrong result only if the result is exactly what that deviation gives (SavedQ!SubstOrB)
                as_built = asb[json.dumps([rec["txt"], rec["files"]], sort_keys=True)]
                cls = ("kinds-pooled" if pooled(rec.get("expanded")) and rec["obs"] == as_built else
                       "alternatives-captured" if any(" | " in l for l in rec["files"].values()) else "other")
                bad.setdefault(cls, []).append((rec, want))
    for cls, items in sorted(bad.items()):
        rec, want = min(items, key=lambda x: len(json.dumps(x[0])))
        ctx.violation(f"{len(items)} referencing quer(ies) differ from the saved clause as a unit ({cls}); e.g. `{rec['txt']}` with "
                      f"{rec['files']} expands to `{rec.get('expanded')}` and returns {rec.get('obs')}, expected {want}",
                      {"class": cls, "count": len(items), "query": rec["txt"], "saved_pages": rec["files"], "expanded": rec.get("expanded"),
                       "observed": rec.get("obs"), "expected": want, "exception": rec.get("exc")},
                      key="saved-kinds-pool-across-reference" if cls == "kinds-pooled" else None)
    # ---- a reference to a page that does not exist is an error, never ignored
    from zorg.service import swog
    from zorg.service.swog._saved_queries import expand_saved_queries
    import contextlib
    import io
    for q in ("W o {does_not_exist}", "W {qa}", "W o | {nope} +pj1"):
        n += 1
        with contextlib.redirect_stderr(io.StringIO()):
            res = expand_saved_queries(env.zdir, q)
            raised = False
            try:
                zenv.reset_process_state()
                swog.execute(env.zdir, f"sqlite:///{env.db_path}", q)
            except Exception:  # noqa: BLE001
                raised = True
            zenv.reset_process_state()
        if res is not None or not raised:
            ctx.violation(f"reference to a missing saved query in `{q}` was not reported (expand -> {res!r}, execute raised: {raised})",
                          {"query": q, "expanded": res, "execute_raised": raised})
    ctx.set("evaluations", n)
    ctx.add("traces_validated_against_impl", n)
    ctx.set("distinct_nontrivial", len(exp))
    ctx.set("rule", "cases = every (saved set, page header layout, referencing query) TLC enumerated (sampled in quick); "
                    "distinct = distinct (query, saved pages)")
    ctx.sample({"saved_pages": pool[0]["files"], "query": pool[0]["txt"]})
    ctx.assume("saved clauses do not contain the words O / G inside quoted text; reference sets are acyclic")
    env.cleanup()
    c03._ENV.clear()


def replay(ctx, rep):
    print(json.dumps(rep["case"], indent=1, default=str)[:5000])
    return 0
