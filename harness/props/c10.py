"""C10 - `note move` relocates exactly one note and loses nothing.

Spec: FileOps.tla (MoveClauses: source-lines, dest-lines with a free landing position, pages-compile, other-notes,
moved-once, moved-kind, moved-text, moved-metadata).  TLC (MC_Move) enumerates the scenarios: source page shapes
(sections, inherited tags / properties, ZID mentions in other notes, bullet lines, a note that is only its ZID) x
note to move x marker x destination form (missing with / without template, header only, with items, ending in a
section header with and without final newline, ...).  Each scenario is run through the real `zorg db create` and
`zorg note move`; file lines and the notes the real compiler reports before / after are recorded and TLC
(Trace_Move) evaluates every clause."""
from __future__ import annotations

import json
import random

from .. import bind_page as bp
from .. import par, tlc, zenv

LEVEL = "model_checking"

DEST = {
    "header-only": "# Dest page\n",
    "header-blank": "# Dest page\n\n",
    "items": "# Dest page @dt\n\n- 240202#01 dest one\no 240202#02 dest two\n",
    "items-blank-end": "# Dest page\n\n- 240202#01 dest one\n\n",
    "two-blocks": "# Dest page\n\n- 240202#01 dest one\n\n- 240202#02 dest two\n",
    "sec-last-nl": "# Dest page\n\n- 240202#01 dest one\n\n################################ Later +dl\n",
    "sec-last-nonl": "# Dest page\n\n- 240202#01 dest one\n\n################################ Later +dl",
    "sec-with-items": "# Dest page\n\n- 240202#01 dest one\n\n################################ Later +dl\n\n- 240202#02 in section\n",
}
TEMPLATE = "# template for done pages\n\n## Done page {{ name }}\n\n"


def _notes(env, rel):
    """Compiled notes of a page in the shape of FileOps (or None if the page has errors / is missing)."""
    if not env.exists(rel):
        return [], True
    pg = env.compile(rel)
    if pg.has_errors:
        return [], False
    out = []
    for n in bp.project_page(pg):
        lines = n["body"].split("\n")
        out.append({"zid": n["zid"], "kind": n["kind"], "words": [w for w in lines[0].split(" ") if w], "contLines": lines[1:],
                    "tags": n["tags"], "props": n["props"]})
    return out, True


def _run_chunk(cases):
    zenv.set_day("2024-06-01")
    out = []
    for c in cases:
        env = zenv.ZEnv({"template_pattern_map": {"^tmpl_.*\\.zo$": "done.zot"}})
        rec = {"id": c["id"], "case": c}
        try:
            env.write("src.zo", bp.render_page(c["src"]))
            env.write("done.zot", TEMPLATE)
            form = c["dest"]
            dest_rel = "tmpl_dest.zo" if form == "missing-tmpl" else "src.zo" if form == "same-page" else "dest.zo"
            rec["same"] = form == "same-page"
            if form in DEST:
                env.write(dest_rel, DEST[form])
            r = env.db_create()
            if not r.ok:
                rec["setup_failed"] = r.out[-200:]
                out.append(rec)
                continue
            rec["src"] = env.read("src.zo").split("\n")
            rec["dest"] = env.read(dest_rel).split("\n") if env.exists(dest_rel) else []
            if form == "missing-tmpl":
                # the destination is created from its template first: the baseline is what template init writes (C16's subject)
                env.main("template", "init", str(env.path("tmpl_probe.zo")))
                rec["dest"] = env.read("tmpl_probe.zo").split("\n")
                env.path("tmpl_probe.zo").unlink()
            rec["nsrc"], ok_s = _notes(env, "src.zo")
            rec["ndest"], ok_d = _notes(env, dest_rel)
            rec["ok1"] = ok_s and ok_d
            args = ["note", "move", c["zid"], str(env.path(dest_rel))] + ([c["marker"]] if c["marker"] else [])
            mv = env.main(*args)
            rec["rc"] = mv.rc
            rec["exc"] = repr(mv.exc) if mv.exc else None
            rec["src2"] = env.read("src.zo").split("\n")
            rec["dest2"] = env.read(dest_rel).split("\n") if env.exists(dest_rel) else []
            rec["nsrc2"], ok_s2 = _notes(env, "src.zo")
            rec["ndest2"], ok_d2 = _notes(env, dest_rel)
            rec["ok2"] = ok_s2 and ok_d2
            for k in ("a", "b", "zid", "marker"):
                rec[k] = c[k]
        except Exception as e:  # noqa: BLE001
            import traceback
            rec["harness_error"] = traceback.format_exc()
        finally:
            env.cleanup()
        out.append(rec)
    return out


def classify(rec, clauses) -> str | None:
    """Names the input class of the recorded findings."""
    c = rec["case"]
    form = c["dest"]
    if form == "header-only" and set(clauses) <= {"pages-compile", "other-notes", "moved-once", "moved-kind", "moved-text", "moved-metadata"} \
            and "pages-compile" in clauses:
        return None
    return None


def run(ctx):
    rng = random.Random(ctx.seed)
    r = tlc.run_tlc("MC_Move")
    if not r.ok:
        ctx.machinery(f"MC_Move: {r.error}\n{r.output[-1500:]}")
    ctx.tlc_stats(r, "MC_Move: source shapes x note x marker x destination form")
    cases = sorted((json.loads(json.loads(l)) for l in r.output.splitlines() if l.startswith('"{')), key=lambda c: json.dumps(c, sort_keys=True))
    if len(cases) != r.distinct:
        ctx.machinery(f"MC_Move emitted {len(cases)} cases for {r.distinct} states")
    for i, c in enumerate(cases):
        c["id"] = f"m{i}"
    if ctx.quick:
        # every destination form x marker x which-note at least once, plus a random sample
        strata = {}
        for c in cases:
            stamped = c["src"]["body"][0]["w"][0]["c"] == "sdate"
            strata.setdefault((c["dest"], c["marker"], c["zid"], stamped), []).append(c)
        pool = [rng.choice(v) for _, v in sorted(strata.items())] + rng.sample(cases, 260)
    else:
        pool = cases
    chunks = [pool[i:i + 8] for i in range(0, len(pool), 8)]
    recs = [x for part in par.pmap(_run_chunk, chunks, chunk=1) for x in part]
    todo = []
    for rec in recs:
        ctx.add("evaluations")
        if "harness_error" in rec:
            ctx.machinery("move harness: " + rec["harness_error"][-1200:])
        if "setup_failed" in rec or not rec.get("ok1", False):
            ctx.machinery(f"scenario setup failed for {rec['case']['dest']}: {rec.get('setup_failed')}")
        if rec["rc"] != 0 or rec["exc"]:
            # an unsuccessful move must not have changed anything (the property speaks of successful moves)
            if rec["src2"] != rec["src"] or (rec["dest"] and not rec["same"] and rec["dest2"] != rec["dest"]):
                rec["failed_but_changed"] = True
                todo.append(rec)
            else:
                ctx.add("moves_refused_cleanly")
            continue
        todo.append(rec)
    f = tlc.scratch_root() / "moves.ndjson"
    keys = ("id", "src", "dest", "src2", "dest2", "a", "b", "zid", "marker", "ok2", "same", "nsrc", "ndest", "nsrc2", "ndest2")
    f.write_text("".join(json.dumps({k: rec[k] for k in keys}) + "\n" for rec in todo))
    res = tlc.run_tlc("Trace_Move", env={"ZV_TRACE": str(f)})
    if not res.ok:
        ctx.machinery(f"Trace_Move failed: {res.error}\n{res.output[-2500:]}")
    ctx.add("states", res.distinct)
    ctx.add("transitions", res.generated)
    verdict = {}
    for line in res.output.splitlines():
        if line.startswith('"[\\"RES\\"'):
            t = json.loads(json.loads(line))
            verdict[t[1]] = sorted(t[2])
    groups = {}
    for rec in todo:
        cl = verdict.get(rec["id"])
        if cl is None:
            ctx.machinery(f"Trace_Move gave no verdict for {rec['id']}")
        if rec.get("failed_but_changed"):
            cl = ["failed-move-changed-files"] + cl
        if cl:
            c = rec["case"]
            mention = [w["txt"] for l in c["src"]["body"] if l["k"] == "item" for w in l["w"][3:] if w["txt"].startswith("2401")]
            klass = (c["dest"] if c["dest"] in ("header-only", "sec-last-nonl") and "dest-lines" in cl + ["x"] and
                     ("pages-compile" in cl or "dest-lines" in cl) else
                     "zid-mentioned-earlier" if mention and "source-lines" in cl else
                     "zid-at-end-of-line" if rec["rc"] != 0 else "other")
            groups.setdefault((klass, tuple(cl)), []).append(rec)
    for (klass, cl), items in sorted(groups.items()):
        rec = items[0]
        c = rec["case"]
        ctx.violation(f"{len(items)} move(s) violate {list(cl)} (class {klass}); e.g. move {c['zid']} marker '{c['marker']}' to "
                      f"destination form {c['dest']}",
                      {"class": klass, "clauses": list(cl), "count": len(items), "zid": c["zid"], "marker": c["marker"],
                       "dest_form": c["dest"], "rc": rec["rc"], "source_before": "\n".join(rec["src"]), "dest_before": "\n".join(rec["dest"]),
                       "source_after": "\n".join(rec["src2"]), "dest_after": "\n".join(rec["dest2"])},
                      key={"header-only": "move-into-header-only-page", "sec-last-nonl": "move-overwrites-last-line-without-newline",
                           "zid-mentioned-earlier": "move-deletes-line-mentioning-zid", "zid-at-end-of-line": "move-zid-at-end-of-line"}.get(klass))
    ctx.add("traces_validated_against_impl", len(todo))
    ctx.set("distinct_nontrivial", len(pool))
    ctx.set("rule", "scenarios = cases TLC enumerated (stratified sample in quick: every destination form x marker x note, plus random); "
                    "every scenario is a distinct (source shape, note, marker, destination)")
    ctx.sample({"source": bp.render_page(pool[0]["src"]), "zid": pool[0]["zid"], "dest_form": pool[0]["dest"], "marker": pool[0]["marker"]})
    ctx.assume("where in the destination the note lands is free; an added blank separator line is not a changed line")
    ctx.assume("a move that reports failure (non-zero exit) must leave both files unchanged")


def replay(ctx, rep):
    print(json.dumps(rep["case"], indent=1, default=str)[:6000])
    return 0
