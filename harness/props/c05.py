"""C05 - after `db create` index and files agree; files change only to gain ZIDs.

Spec: Index.tla (DbCreate, Agreement, AllZid, UniqueZid, OnlyZidInsertions, Idempotent).  Design level: exhaustive
TLC on MC_Index / MC_IndexStart.  Binding: behaviours of the simulation configurations replayed on real
directories through `zorg db create` / `db reindex`; after every command the projected files and index rows must
equal the TLC successor (up to ZID renaming), recompiling the real files must give the real rows on every field,
and a second run must change nothing."""
from __future__ import annotations

from . import indexcommon as ic

LEVEL = "model_checking"


def cats(c: str) -> bool:
    return c.endswith(".create") or c.startswith(("agreement.", "idempotence.", "zid.", "create.", "command.failed"))


def run(ctx):
    ic.design(ctx, [("MC_Index.cfg", "empty start, 2 pages, histories <= 6"),
                    ("MC_IndexQuick.cfg" if ctx.quick else "MC_IndexStart.cfg", "indexed start, 2 pages, edit alphabet")])
    q = ctx.quick
    sims = [("Sim_IndexFresh.cfg", 40 if q else 600, 10), ("Sim_IndexAll.cfg", 50 if q else 800, 12)]
    res = ic.tour(ctx, sims, {"idempotence": True, "rebuild": False}, cats, "C05")
    # two pages with the same base name in different directories (processing order between them is free)
    res += ic.tour(ctx, [("Sim_IndexTwin.cfg", 15 if q else 300, 10)],
                   {"idempotence": True, "rebuild": False, "names": {1: "work/journal.zo", 2: "home/journal.zo"}}, cats, "C05")
    ic.random_histories(ctx, "C05", {"create"})
    ic.bulk_create(ctx, "C05")
    for x in res[:2]:
        ctx.sample({"behaviour": x["actions"], "commands": x["commands"]})
    ic.finish(ctx, "behaviours = random walks of the TLC simulator over Index.tla (3 pages in two directories, <=3 notes each, long "
                   "dates, irregular gaps, two-line notes, sections and inherited tags in the real pages) biased to a command every "
                   "<=2-4 user steps; evaluations = real commands executed and compared; distinct = distinct action sequences")
    ctx.assume("ZIDs are compared up to a renaming that is injective per day")
    ctx.assume("what follows a refused `db create` is outside the property (behaviour truncated there)")


def replay(ctx, rep):
    import json
    print(json.dumps(rep["case"], indent=1, default=str)[:4000])
    return 0
