"""C07 - ZIDs are unique, well-formed and recognised by every component.

Spec: spec/Zid.tla.  Design level: MC_ZidSmall (all interleavings, N=2, 3 dates),
MC_ZidRace (real alphabet around every carry point, restarts, lost allocations),
MC_ZidChain (the complete 135,252 chain).  Binding: S->I replay of the chain and of
every edge of the race graph into the real ZIDManager; recognition of every replayed
ZID by both lexers, is_zid and the page compiler; I->S validation of random long
histories of the real manager by Trace_Zid."""
from __future__ import annotations

import datetime as dt
import json
import random
from pathlib import Path

from .. import tlc, tlaval, zenv, par
from ..interpose import Interposer, SimulatedCrash

LEVEL = "model_checking"
DATES = {1: dt.date(2024, 5, 10), 2: dt.date(2031, 12, 31), 3: dt.date(2000, 1, 1),
         4: dt.date(2024, 2, 29), 5: dt.date(2024, 5, 11), 6: dt.date(2099, 10, 9)}
TOTAL = 51 * 51 + 51 ** 3


def dpart(d: dt.date) -> str:
    return d.strftime("%Y%m%d")[2:]


# --------------------------------------------------------------------- glue
class Mgr:
    """The real manager on a scratch directory; the file is the only state."""

    def __init__(self, alphabet):
        self.env = zenv.ZEnv()
        self.alpha = alphabet
        self.path = self.env.zdir / ".zorg" / "next_ids.json"
        self.new()

    def new(self):
        from zorg.storage.sql._zid_manager import ZIDManager
        self.m = ZIDManager(self.env.zdir)

    def spell(self, suf) -> str:
        return "".join(self.alpha[i] for i in suf)

    def set_file(self, mapping: dict):
        self.path.parent.mkdir(exist_ok=True)
        if mapping:
            self.path.write_text(json.dumps(mapping))
        elif self.path.exists():
            self.path.unlink()

    def file(self) -> dict:
        return json.loads(self.path.read_text()) if self.path.exists() else {}

    def chars(self, d: dt.date) -> list:
        """Characters of the date's file value; [] = key absent; a present empty value is one pseudo-character."""
        f = self.file()
        if dpart(d) not in f:
            return []
        return list(f[dpart(d)]) or ["<empty>"]

    def alloc(self, d: dt.date):
        """-> ("ok", zid) | ("out", msg) | ("exc", repr)"""
        try:
            return "ok", self.m.get_next(d)
        except RuntimeError as e:
            if "out of" in str(e).lower() and "id" in str(e).lower():
                return "out", str(e)
            return "exc", repr(e)
        except Exception as e:  # noqa: BLE001
            return "exc", repr(e)

    def alloc_lost(self, d: dt.date):
        """get_next killed right after next_ids.json was written."""
        try:
            with Interposer(self.env.zdir, crash_after_match=lambda e: e["target"].endswith("next_ids.json")):
                self.m.get_next(d)
        except SimulatedCrash:
            self.new()
            return "lost"
        except Exception as e:  # noqa: BLE001
            return "exc:" + repr(e)
        return "nowrite"


def _abs_matches(m: Mgr, chars: list, expected) -> bool:
    """Does the file value (characters) project to the abstract value `expected`?"""
    if expected == ():
        return chars == []
    if len(expected) == 1:      # Exhausted: any value that is not a well-formed suffix
        return not (len(chars) in (2, 3) and all(c in m.alpha for c in chars))
    return chars == [m.alpha[i] for i in expected]


# ----------------------------------------------------- recognition (workers)
_LEX = {}


def _lexers():
    if not _LEX:
        import antlr4
        from zorg.grammar.zorg_file.ZorgFileLexer import ZorgFileLexer
        from zorg.grammar.zorg_query.ZorgQueryLexer import ZorgQueryLexer
        _LEX["a"] = antlr4
        _LEX["f"] = ZorgFileLexer
        _LEX["q"] = ZorgQueryLexer
    return _LEX


def _recognise_chunk(zids: list) -> list:
    """For each ZID: both lexers produce exactly one token of type ZID covering it; is_zid."""
    L = _lexers()
    antlr4 = L["a"]
    from zorg.shared import dates as zdt
    bad = []
    for z in zids:
        for name, Lx in (("file", L["f"]), ("query", L["q"])):
            lx = Lx(antlr4.InputStream(z))
            lx.removeErrorListeners()
            toks = [t for t in lx.getAllTokens()]
            if not (len(toks) == 1 and toks[0].type == Lx.ZID and toks[0].text == z):
                bad.append((z, f"{name}-lexer", [(Lx.symbolicNames[t.type] if t.type > 0 else t.type, t.text) for t in toks]))
        if not zdt.is_zid(z):
            bad.append((z, "is_zid", False))
    return bad


def _compile_chunk(zids: list) -> list:
    """Each ZID as primary ZID of items of several shapes; the compiled note must own it."""
    zenv.set_day("2024-06-01")
    env = zenv.ZEnv()
    bad = []
    shapes = [("- {z} body words\n", None), ("o P1 {z} todo body\n", None), ("x 240601 {z} stamped\n", "240601"),
              ("- {z}\n", None)]
    lines, expect = ["# Title\n", "\n"], []
    for z in zids:
        for sh, md in shapes:
            expect.append((len(lines) + 1, z))
            lines.append(sh.format(z=z))
    env.write("p.zo", "".join(lines))
    try:
        page = env.compile("p.zo")
        got = {n.line_no: n for n in page.notes}
        if page.has_errors:
            bad.append((zids[0], "compile", "page flagged has_errors"))
        for ln, z in expect:
            n = got.get(ln)
            want_date = dt.datetime.strptime("20" + z[:6], "%Y%m%d").date()
            if n is None or n.zid != z or n.create_date != want_date:
                bad.append((z, "compile", f"line {ln}: zid={getattr(n, 'zid', None)!r} cdate={getattr(n, 'create_date', None)}"))
    except Exception as e:  # noqa: BLE001
        bad.append((zids[0], "compile", repr(e)))
    env.cleanup()
    return bad


# ----------------------------------------------------------------- the check
def run(ctx):
    rng = random.Random(ctx.seed)
    zenv.set_day("2024-06-01")
    scratch = tlc.scratch_root()

    # ---- 1. design level
    r = tlc.run_tlc("MC_ZidSmall", coverage=True)
    ctx.require_tlc_ok(r, "MC_ZidSmall")
    ctx.tlc_stats(r, "MC_ZidSmall: N=2, 3 dates, all interleavings with restarts / lost allocations")
    dot = scratch / "race.dot"
    r = tlc.run_tlc("MC_ZidRace", coverage=True, dump_dot=dot)
    ctx.require_tlc_ok(r, "MC_ZidRace")
    ctx.tlc_stats(r, "MC_ZidRace: N=51, 2 dates, 10 start points each, <=4 calls")
    chain_json = scratch / "chain.json"
    r = tlc.run_tlc("MC_ZidChain", workers=1, env={"ZV_OUT": str(chain_json)})
    ctx.require_tlc_ok(r, "MC_ZidChain")
    ctx.tlc_stats(r, "MC_ZidChain: N=51, complete chain of one date")
    if r.distinct != TOTAL + 2:
        ctx.machinery(f"chain has {r.distinct} states, expected {TOTAL + 2}")
    cj = json.loads(chain_json.read_text())
    alpha, chain = cj["alphabet"], [tuple(x) for x in cj["chain"]]
    if len(chain) != TOTAL or len(set(chain)) != TOTAL:
        ctx.machinery("exported chain is not a duplicate-free list of 135,252 suffixes")

    # ---- 2. S->I: the chain into the real manager
    m = Mgr(alpha)
    d = DATES[1]
    dp = dpart(d)
    if ctx.quick:
        pts = set()
        carries = [i for i in range(1, TOTAL) if chain[i][-1] == 0]            # after every carry
        for c in rng.sample(carries, 150) + [0, 51 * 51, TOTAL - 1, 51 * 51 - 1]:
            pts.update(range(max(0, c - 2), min(TOTAL, c + 3)))
        pts.update(rng.sample(range(TOTAL), 1500))
        pts.update(range(0, 120))
        pts.update(range(51 * 51 - 60, 51 * 51 + 60))
        pts.update(range(TOTAL - 120, TOTAL))
        ranks = sorted(pts)
    else:
        ranks = list(range(TOTAL))
    replayed_zids = []
    steps = 0
    prev = None
    for r_ in ranks:
        want = chain[r_]
        if prev is None or r_ != prev + 1:          # jump: position the durable state, new process
            m.set_file({} if r_ == 0 else {dp: m.spell(want)})
            m.new()
        elif r_ % 97 == 0:
            m.new()
        kind, val = m.alloc(d)
        steps += 1
        case = {"rank": r_, "date": d.isoformat(), "file_before": m.spell(want) if r_ else None,
                "expected": dp + "#" + m.spell(want), "got": [kind, val]}
        if kind != "ok" or val != dp + "#" + m.spell(want):
            ctx.violation(f"allocation #{r_} of a date returned {kind}:{val}, chain prescribes {case['expected']}", case,
                          key="last-suffix-never-handed-out" if r_ == TOTAL - 1 and kind in ("out", "exc") else None)
            prev = None
            continue
        nxt = chain[r_ + 1] if r_ + 1 < TOTAL else (51,)
        if not _abs_matches(m, m.chars(d), nxt):
            case["file_after"] = m.file()
            ctx.violation(f"after allocation #{r_} next_ids.json holds {m.file().get(dp)!r}, expected successor "
                          f"{m.spell(nxt) if len(nxt) > 1 else 'an exhausted marker'}", case)
            prev = None
            continue
        replayed_zids.append(val)
        prev = r_
    # the call after the last suffix: explicit failure, nothing changes, again after a restart
    if prev == TOTAL - 1:
        before = m.file()
        for attempt in range(2):
            kind, val = m.alloc(d)
            steps += 1
            if kind != "out" or m.file() != before:
                ctx.violation(f"allocation after all {TOTAL} suffixes: {kind}:{val}, file changed={m.file() != before}",
                              {"rank": TOTAL, "got": [kind, val], "file_before": before, "file_after": m.file()})
            m.new()
    ctx.add("traces_validated_against_impl", 1)
    ctx.set("chain_positions_replayed", steps)
    ctx.set("exhaustive_chain", not ctx.quick)
    ctx.sample({"chain_replay": [f"rank {ranks[i]} -> {replayed_zids[i] if i < len(replayed_zids) else '?'}" for i in (0, 1, len(ranks) // 2)]})

    # ---- 3. S->I: every edge of the race graph, along paths from the initial states
    g = tlaval.read_dot(dot)
    succ = g.succ()
    parent = {}
    order = list(g.init)
    seen = set(order)
    for n in order:                                   # BFS tree
        for lab, t in succ[n]:
            if t not in seen:
                seen.add(t)
                parent[t] = (n, lab)
                order.append(t)

    def path_to(n):
        p = []
        while n in parent:
            n0, lab = parent[n]
            p.append((n0, lab, n))
            n = n0
        return n, list(reversed(p))

    edges = g.edges if not ctx.quick else rng.sample(g.edges, min(len(g.edges), 4000))
    edge_steps = 0
    covered = set()
    for (a, b, lab) in edges:
        if (a, lab, b) in covered:
            continue
        root, path = path_to(a)
        path = path + [(a, lab, b)]
        st = g.nodes[root]
        # render the initial durable state; Exhausted is produced by the code itself from "zzz"
        init_map, need_exhaust = {}, []
        for di, v in enumerate(st["nextIds"], start=1):
            if len(v) == 1:
                init_map[dpart(DATES[di])] = m.spell(chain[-1])
                need_exhaust.append(di)
            elif v != ():
                init_map[dpart(DATES[di])] = m.spell(v)
        m.set_file(init_map)
        m.new()
        ok = True
        for di in need_exhaust:
            kind, val = m.alloc(DATES[di])
            if kind != "ok":
                ctx.violation(f"cannot hand out the last suffix: {kind}:{val}", {"file": init_map, "date": DATES[di].isoformat()},
                              key="last-suffix-never-handed-out")
                ok = False
        if not ok:
            continue
        for (s0, l0, s1) in path:
            covered.add((s0, l0, s1))
            name, args = tlaval.parse_action_label(l0)
            tgt = g.nodes[s1]
            edge_steps += 1
            case = {"path": [x[1] for x in path], "at": l0, "init_file": init_map}
            if name == "RRestart":
                m.new()
                continue
            di = args[0]
            d_ = DATES[di]
            if name == "RAllocLost":
                out = m.alloc_lost(d_)
                if out != "lost":
                    ctx.violation(f"{l0}: expected a write of next_ids.json before returning, got {out}", case)
                    break
            else:
                kind, val = m.alloc(d_)
                exp = tgt["last"]
                if name == "RAlloc":
                    want = dpart(d_) + "#" + m.spell(exp["s"])
                    if kind != "ok" or val != want:
                        ctx.violation(f"{l0}: returned {kind}:{val}, spec says {want}", case,
                                      key="last-suffix-never-handed-out" if tuple(exp["s"]) == chain[-1] and kind != "ok" else None)
                        break
                elif name == "RAllocFails":
                    if kind != "out":
                        ctx.violation(f"{l0}: expected the explicit out-of-IDs error, got {kind}:{val}", case)
                        break
            for dj, v in enumerate(tgt["nextIds"], start=1):
                if not _abs_matches(m, m.chars(DATES[dj]), v):
                    case["file_after"] = m.file()
                    ctx.violation(f"{l0}: next_ids.json[{dpart(DATES[dj])}]={m.file().get(dpart(DATES[dj]))!r} does not project to {v}", case)
                    ok = False
            if not ok:
                break
    ctx.set("race_edges_total", len(g.edges))
    ctx.set("race_edges_replayed", len(covered))
    ctx.set("race_steps_executed", edge_steps)
    ctx.add("traces_validated_against_impl", len(covered))
    m.env.cleanup()

    # ---- 4. recognition of the replayed ZIDs by lexers / is_zid / the compiler
    zset = sorted(set(replayed_zids))
    for dd in (DATES[2], DATES[4]):                   # other dates: same suffixes, different date digits
        zset += [dpart(dd) + z[6:] for z in rng.sample(replayed_zids, min(len(replayed_zids), 300))]
    chunks = [zset[i:i + 400] for i in range(0, len(zset), 400)]
    bad = [b for part in par.pmap(_recognise_chunk, chunks) for b in part]
    three = [z for z in zset if len(z) == 10]
    if ctx.quick:
        comp = three[:150] + rng.sample(zset, min(len(zset), 450))
    else:
        comp = zset[::20] + three[:300] + rng.sample(three, min(len(three), 1500))
    cchunks = [comp[i:i + 40] for i in range(0, len(comp), 40)]
    bad += [b for part in par.pmap(_compile_chunk, cchunks) for b in part]
    ctx.set("zids_lexed_by_both_grammars", len(zset))
    ctx.set("zids_compiled_as_primary", len(comp))
    groups = {}
    for z, where, what in bad:
        k = (where, len(z))
        groups.setdefault(k, []).append((z, what))
    for (where, ln), items in groups.items():
        ctx.violation(f"{len(items)} allocated ZID(s) with a {ln - 7}-character suffix not recognised by {where}: e.g. {items[0]}",
                      {"component": where, "examples": items[:10], "count": len(items)},
                      key=f"three-char-zid-unrecognised-{where}" if ln == 10 else None)

    # ---- 5. I->S: random long histories of the real manager, validated by Trace_Zid
    ntr = 40 if ctx.quick else 400
    trace_file = scratch / "zid_traces.ndjson"
    ids = []
    with open(trace_file, "w") as f:
        for t in range(ntr):
            m = Mgr(alpha)
            ndates = rng.randint(1, 6)
            init = []
            fm = {}
            for di in range(1, ndates + 1):
                mode = rng.random()
                if mode < 0.3:
                    init.append([])
                else:
                    r0 = rng.choice([rng.randrange(TOTAL), 51 * 51 - rng.randint(1, 5), TOTAL - rng.randint(1, 4),
                                     51 * rng.randint(1, 50) - rng.randint(1, 3)])
                    fm[dpart(DATES[di])] = m.spell(chain[r0])
                    init.append(list(m.spell(chain[r0])))
            m.set_file(fm)
            m.new()
            ev = []
            for _ in range(rng.randint(20, 120 if ctx.quick else 400)):
                x = rng.random()
                di = rng.randint(1, ndates)
                if x < 0.08:
                    m.new()
                    ev.append({"op": "restart"})
                elif x < 0.14:
                    out = m.alloc_lost(DATES[di])
                    if out == "lost":
                        ev.append({"op": "lost", "d": di, "nxt": m.chars(DATES[di])})
                    else:   # the call raised before writing (exhausted date): an ordinary failed alloc
                        ev.append({"op": "alloc", "d": di, "res": "out" if out.startswith("exc:RuntimeError") else "exc",
                                   "nxt": m.chars(DATES[di])})
                else:
                    kind, val = m.alloc(DATES[di])
                    e = {"op": "alloc", "d": di, "res": kind, "nxt": m.chars(DATES[di])}
                    if kind == "ok":
                        e["s"] = list(val[7:])
                        e["zid"] = val
                        if val[:7] != dpart(DATES[di]) + "#":
                            e["res"] = "exc"
                    ev.append(e)
            tid = f"h{t}"
            ids.append(tid)
            f.write(json.dumps({"id": tid, "init": init, "ev": ev}) + "\n")
            if t == 0:
                ctx.sample({"history": {"init": init, "first_events": ev[:4], "n_events": len(ev)}})
            m.env.cleanup()
    r = tlc.run_tlc("Trace_Zid", env={"ZV_TRACE": str(trace_file)}, cont=True)
    if r.error and "ACCEPT" not in r.output:
        ctx.machinery(f"Trace_Zid failed: {r.error}\n{r.output[-2000:]}")
    accepted = set(tlaval.iter_printed(r.output, "ACCEPT"))
    ctx.add("states", r.distinct)
    ctx.add("transitions", r.generated)
    ctx.add("traces_validated_against_impl", len(accepted))
    ctx.set("histories_recorded", ntr)
    rejected = [t for t in ids if t not in accepted]
    if rejected:
        lines = {json.loads(x)["id"]: json.loads(x) for x in trace_file.read_text().splitlines()}
        for tid in rejected[:5]:
            ctx.violation(f"history {tid} of the real ZIDManager is not a behaviour of Zid.tla", lines[tid],
                          key="last-suffix-never-handed-out" if _only_last_suffix(lines[tid], alpha) else None)
    ctx.assume("next_ids.json is the allocator's only durable state (observed at the file interface)")
    ctx.assume("dates 2000-2099 (the ZID date part is YYMMDD with an implied century 20)")
    ctx.set("rule", "chain positions: every carry neighbourhood + random ranks (quick) or all 135,252 (thorough); "
                    "race graph: every labelled edge of MC_ZidRace replayed on a path from an initial state; "
                    "histories: random interleavings on 1-6 dates with restarts and lost allocations")


def _only_last_suffix(tr: dict, alpha) -> bool:
    """Is the history rejected only at an allocation made while the file held the last suffix zzz?"""
    last = alpha[-1] * 3
    cur = {i + 1: "".join(v) for i, v in enumerate(tr["init"])}
    for e in tr["ev"]:
        if e["op"] == "alloc" and e["res"] != "ok":
            return cur.get(e["d"]) == last
        if "d" in e:
            cur[e["d"]] = "".join(e["nxt"])
    return False


def replay(ctx, rep):
    print(json.dumps(rep, indent=1)[:3000])
    return 0
