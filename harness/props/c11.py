"""C11 - modification dates are stamped on exactly the notes that were edited.

Spec: Index.tla (ShouldStamp inside DbReindex; action property StampIff stated against the ghost record of what the
user last had indexed; GhostAgrees).  Binding: simulated multi-day edit histories (bodies, kinds / priorities, stamps
removed by hand, notes stamped earlier, new notes, untouched neighbours, moves) replayed on real directories; after
every reindex the stamps in files and rows must be the TLC successor's, all other lines unchanged, and a second
reindex must be a no-op."""
from __future__ import annotations

from . import indexcommon as ic

LEVEL = "model_checking"


def cats(c: str) -> bool:
    return c.startswith(("files.reindex", "db.reindex", "idempotence.reindex", "agreement.reindex", "command.failed"))


def run(ctx):
    ic.design(ctx, [("MC_IndexStamp.cfg" if not ctx.quick else "MC_IndexQuick.cfg", "stamped start, 3 days, StripMd / EditKind"),
                    ])
    q = ctx.quick
    sims = [("Sim_IndexScript11b.cfg", 8 if q else 40, 8), ("Sim_IndexScript11.cfg", 48 if q else 600, 11), ("Sim_IndexStamp.cfg", 20 if q else 1000, 12),
            ("Sim_IndexStampM.cfg", 20 if q else 1000, 12), ("Sim_IndexEdit.cfg", 16 if q else 800, 12)]
    res = ic.tour(ctx, sims, {"idempotence": True, "rebuild": False}, cats, "C11")
    ic.random_histories(ctx, "C11", {"reindex"})
    ic.edit_loop(ctx, "C11", {"stamp"})
    for x in res[:2]:
        ctx.sample({"behaviour": x["actions"], "commands": x["commands"]})
    ic.finish(ctx, "behaviours = random walks over Index.tla across 3 calendar days, starting from notes already stamped; "
                   "distinct = distinct action sequences")


def replay(ctx, rep):
    import json
    print(json.dumps(rep["case"], indent=1, default=str)[:4000])
    return 0
