"""Shared driver of the index-level properties (C05, C06, C11, C08 protocol part): design-level TLC runs of
Index.tla configurations, then S->I replay of simulated behaviours (index_tour), then I->S validation of random
larger histories (index_random / Trace_Index)."""
from __future__ import annotations

from .. import index_tour as it
from .. import tlc

DEAD_OK = {"RenamePage", "SwapNotes", "StripMd", "BreakPage", "FixPage", "DbCreateRefused", "DbReindexRefused",
           "MoveNote", "EditKind", "DelPage", "AddPage", "NextDay", "RestorePage"}


def design(ctx, cfgs: list) -> None:
    """Exhaustive TLC runs of the reference specification (a failure here is a machinery failure)."""
    for cfg, label in cfgs:
        r = tlc.run_tlc("MC_Index", cfg=cfg, coverage=True)
        if not r.ok:
            ctx.machinery(f"TLC on {cfg}: violated={r.violated} error={r.error}\n" + "\n".join(r.output.splitlines()[-30:]))
        dead = [a for a in r.never_taken() if a not in DEAD_OK]
        if dead:
            ctx.machinery(f"TLC on {cfg}: actions never taken: {dead}")
        ctx.tlc_stats(r, f"{cfg}: {label}")


def tour(ctx, sims: list, opts: dict, cats, what: str, key_of=None) -> list:
    """sims: [(cfg, num, depth)].  cats(issue_category) -> bool selects the issues that belong to this property.
    Issues of other categories are counted in the evidence ('other_property_issues') but are not this check's verdict,
    except harness errors, which are machinery failures."""
    all_res = []
    for cfg, num, depth in sims:
        files, r = it.simulate("MC_IndexSim", cfg, num, depth, ctx.seed + 1)
        if r.violated or (r.error and not files):
            ctx.machinery(f"simulation of {cfg} failed: violated={r.violated} error={r.error}\n{r.output[-1500:]}")
        ctx.add("states", r.generated)
        ctx.add("transitions", r.generated)
        res = it.run_behaviours(files, opts)
        for x in res:
            x["cfg"] = cfg
        all_res += res
    sigs = set()
    other = 0
    for x in all_res:
        if "harness_error" in x:
            ctx.machinery(f"replay harness failed on {x['cfg']}/{x['trace']}:\n{x['harness_error'][-1500:]}")
        ctx.add("evaluations", x["commands"])
        ctx.add("behaviours_replayed")
        ctx.add("steps_replayed", x["steps"])
        sigs.add(tuple(x["actions"]))
        mine = [i for i in x["issues"] if cats(i["cat"])]
        other += len(x["issues"]) - len(mine)
        if mine:
            i = mine[0]
            ctx.violation(f"{what}: after {i['action']} (step {i['step']} of {x['cfg']}/{x['trace']}): {i['cat']}: "
                          f"{str(i['detail'])[:400]}",
                          {"cfg": x["cfg"], "trace": x["trace"], "actions": x["actions"], "issues": mine},
                          key=key_of(i) if key_of else None)
    ctx.add("traces_validated_against_impl", len(all_res))
    ctx.set("other_property_issues", other)
    ctx.coverage.setdefault("_sigs", set()).update(sigs)
    return all_res


def random_histories(ctx, what: str, cmds: set, n_quick: int = 16, n_thorough: int = 240) -> None:
    """I->S: random long histories (5 pages, <= 6 notes each, 6 days) on real directories; every command of kind `cmds` must be a
    step of Index.tla from the projected pre-state to the projected post-state (Trace_Index)."""
    from .. import index_random as ir
    n = n_quick if ctx.quick else n_thorough
    recs, verdict = ir.run_histories(ctx, [ctx.seed * 1000 + i for i in range(n)], 30 if ctx.quick else 45)
    mine = [r for r in recs if r["cmd"] in cmds]
    for r in mine:
        ctx.add("evaluations")
        if "corrupt" in r:
            ctx.violation(f"{what}: after `{r['cmd']}` a store no longer has the shape the directory was written in: {r['corrupt'][:200]}",
                          {"record": r["id"], "cmd": r["cmd"], "paths": r["paths"], "ok": r["ok"], "today": r["today"],
                           "pre": r["pre_raw"], "post": r["post_raw"]})
        elif r["id"] not in verdict:
            ctx.violation(f"{what}: `{r['cmd']}` {'succeeded' if r['ok'] else 'failed'} where Index.tla says it must "
                          f"{'fail' if r['ok'] else 'succeed'} (record {r['id']})",
                          {"record": r["id"], "cmd": r["cmd"], "paths": r["paths"], "ok": r["ok"], "today": r["today"], "pre": r["pre"], "post": r["post"]})
        elif verdict[r["id"]] is not None:
            ctx.violation(f"{what}: `{r['cmd']}` (record {r['id']}, day {r['today']}, paths {r['paths']}) ended in a state that is not the "
                          "Index.tla successor of the state it started in",
                          {"record": r["id"], "cmd": r["cmd"], "paths": r["paths"], "ok": r["ok"], "today": r["today"], "pre": r["pre"],
                           "observed_post": {"files": r["post"]["files"], "db": r["post"]["db"]},
                           "spec_post": {"files": verdict[r["id"]]["files"], "db": verdict[r["id"]]["db"]}})
    ctx.add("traces_validated_against_impl", len(mine))
    ctx.set("random_history_commands", len(mine))


def bulk_create(ctx, what: str) -> None:
    """Index.tla's statements about `db create` (Agreement, AllZid, UniqueZid, OnlyZidInsertions, Idempotent) evaluated on real
    stores far beyond the model's bounds: hundreds of new notes of one create date spread over pages in two directories, so that
    the ZID counter of that date walks through carries of the suffix alphabet."""
    import re
    from .. import bind_index as bi
    from .. import zenv
    zenv.set_day("2024-05-10")
    n1, n2, n3 = (45, 70, 30) if ctx.quick else (160, 700, 330)
    env = zenv.ZEnv()
    try:
        kinds = ["-", "o", "o P1", "x", "~ P2", "<", ">"]
        # (irregular gaps after the prefix; after two or more spaces a word like P1 is body text, not a priority)
        gaps = ["", "", "", " ", "  "]
        firsts = ["item", "item", "P1", "item", "P7", "item", "P0"]
        pages = {"inbox.zo": "# Inbox +pj_in\n\n" + "".join(
                     f"{kinds[i % 7]} {gaps[i % 5]}{firsts[i % 7] if gaps[i % 5] else 'item'} {i} of the inbox k::v{i}\n" for i in range(n1)),
                 "sub/bulk.zo": "# Bulk #ar_b\n\n" + "".join(
                     f"{kinds[i % 7]} bulk {i}\n" + ("  * detail of " + str(i) + "\n" if i % 5 == 0 else "") for i in range(n2)),
                 "dated.zo": "# Dated\n\n" + "".join(f"- 2024-05-0{1 + i % 3} dated {i} +t{i}\n" for i in range(n3))}
        for f, t in pages.items():
            env.write(f, t)
        r = env.db_create()
        ctx.add("evaluations")
        if not r.ok:
            ctx.violation(f"{what}: `db create` of {n1 + n2 + n3} new notes failed: {r!r}", {"pages": {k: v[:300] for k, v in pages.items()}})
            return
        after = {f: env.read(f) for f in pages}
        zids = []
        for f, before in pages.items():
            bl, al = before.split("\n"), after[f].split("\n")
            if len(bl) != len(al):
                ctx.violation(f"{what}: {f} has {len(al)} lines after `db create`, {len(bl)} before", {"file": f, "after": after[f][:2000]})
                return
            for i, (b, a) in enumerate(zip(bl, al)):
                m = re.match(r"^([-ox~<>](?: P\d)? +)(?:(\d{4}-\d\d-\d\d) )?(\S.*)$", b)    # prefix incl. any extra spaces
                if not m or b.startswith("  "):
                    if a != b:
                        ctx.violation(f"{what}: line {i + 1} of {f} is not an item and changed: {b!r} -> {a!r}", {"file": f})
                        return
                    continue
                z = re.match(re.escape(m.group(1)) + r"(\d{6}#[0-9A-Za-z]{2,3}) " + re.escape(m.group(3)) + "$", a)
                want_day = (m.group(2) or "2024-05-10").replace("-", "")[2:]
                if not z or z.group(1)[:6] != want_day:
                    ctx.violation(f"{what}: line {i + 1} of {f}: {b!r} became {a!r} (expected only a ZID of {want_day} after the prefix)",
                                  {"file": f, "line": i + 1, "before": b, "after": a})
                    return
                zids.append(z.group(1))
        if len(set(zids)) != len(zids):
            dup = sorted({z for z in zids if zids.count(z) > 1})[:5]
            ctx.violation(f"{what}: ZIDs handed out twice by one `db create`: {dup}", {"dups": dup})
            return
        diffs = bi.agreement_real(env)
        if diffs:
            ctx.violation(f"{what}: after `db create` of {len(zids)} new notes index and files disagree: {diffs[:3]}", {"diffs": diffs[:20]})
            return
        dump = bi.canonical_dump(env)
        for cmd in (("db", "reindex"), ("db", "create")):
            r = env.main(*cmd)
            ctx.add("evaluations")
            now = {f: env.read(f) for f in pages}
            if not r.ok or now != after or bi.canonical_dump(env) != dump:
                f = next((f for f in pages if now[f] != after[f]), None)
                ctx.violation(f"{what}: a second run (`{' '.join(cmd)}`) without edits changed " + (f"file {f}" if f else "the index") + f" (rc={r.rc})",
                              {"cmd": cmd, "file": f})
                return
        ctx.set("bulk_create", {"new_notes": len(zids), "pages": len(pages)})
    finally:
        env.cleanup()


def edit_loop(ctx, what: str, kinds: set, n_quick: int = 24, n_thorough: int = 400) -> None:
    """`zorg edit` sessions with a scripted user (harness/bus.py): the real-store statements of kind `kinds`, evaluated after
    every process that ended normally, are verdicts; conformance of the recorded effect sequence to Bus.tla is reported as
    SPEC-DRIFT only (the modelled queue discipline is a means, not a listed property)."""
    from .. import bus
    r = tlc.run_tlc("MC_Bus", cfg="MC_Bus.cfg", coverage=True)
    if not r.ok:
        ctx.machinery(f"TLC on MC_Bus.cfg: violated={r.violated} error={r.error}\n" + "\n".join(r.output.splitlines()[-30:]))
    if r.never_taken():
        ctx.machinery(f"TLC on MC_Bus.cfg: actions never taken: {r.never_taken()}")
    ctx.tlc_stats(r, "MC_Bus.cfg: message bus / edit loop, 2 pages, 3 sessions, 2 processes")
    recs, verdict = bus.run(n_quick if ctx.quick else n_thorough, ctx.seed)
    drift = 0
    for rec in recs:
        ctx.add("evaluations", sum(1 for e in rec["trace"] if e[0] == "exit"))
        ctx.add("edit_sessions", sum(1 for e in rec["trace"] if e[0] == "vim"))
        for kind, detail in rec["problems"]:
            if kind == "setup":
                ctx.machinery(f"edit-loop setup failed: {detail}")
            if kind not in kinds:
                ctx.add("edit_loop_problems_of_other_properties")     # reported by the check of the property they belong to
            if kind in kinds:
                ctx.violation(f"{what}: after `zorg edit` sessions (history {rec['id']}): {kind}: {str(detail)[:400]}",
                              {"history": rec["id"], "script": rec["script"], "trace": rec["trace"], "problems": rec["problems"]})
                break
        if not verdict.get(rec["id"], False):
            drift += 1
            if drift <= 3:
                at = bus.diagnose(rec)
                print(f"SPEC-DRIFT: Bus.tla does not explain effect {at} of edit history {rec['id']}: "
                      f"{rec['trace'][max(0, at - 3):at + 1]}")
    if "__tlc__" in verdict:
        print(f"SPEC-DRIFT: a Bus.tla invariant failed on a recorded run: {verdict['__tlc__']['violated']}")
    ctx.add("traces_validated_against_impl", len(recs))
    ctx.set("edit_loop", {"histories": len(recs), "accepted_by_Bus": len(recs) - drift, "spec_drift": drift})


def finish(ctx, rule: str) -> None:
    sigs = ctx.coverage.pop("_sigs", set())
    ctx.set("distinct_nontrivial", len(sigs))
    ctx.set("rule", rule)
