"""Shared driver of the index-level properties (C05, C06, C11, C08 protocol part): design-level TLC runs of
Index.tla configurations, then S->I replay of simulated behaviours (index_tour), then I->S validation of random
larger histories (index_random / Trace_Index)."""
from __future__ import annotations

from .. import index_tour as it
from .. import tlc

DEAD_OK = {"RenamePage", "SwapNotes", "StripMd", "BreakPage", "FixPage", "DbCreateRefused", "DbReindexRefused",
           "MoveNote", "EditKind", "DelPage", "AddPage", "NextDay", "RestorePage"}


def design(ctx, cfgs: list) -> None:
    """Exhaustive TLC runs of the reference specification (a failure here is a machinery failure)."""
    for cfg, label in cfgs:
        r = tlc.run_tlc("MC_Index", cfg=cfg, coverage=True)
        if not r.ok:
            ctx.machinery(f"TLC on {cfg}: violated={r.violated} error={r.error}\n" + "\n".join(r.output.splitlines()[-30:]))
        dead = [a for a in r.never_taken() if a not in DEAD_OK]
        if dead:
            ctx.machinery(f"TLC on {cfg}: actions never taken: {dead}")
        ctx.tlc_stats(r, f"{cfg}: {label}")


def tour(ctx, sims: list, opts: dict, cats, what: str, key_of=None) -> list:
    """sims: [(cfg, num, depth)].  cats(issue_category) -> bool selects the issues that belong to this property.
    Issues of other categories are counted in the evidence ('other_property_issues') but are not this check's verdict,
    except harness errors, which are machinery failures."""
    all_res = []
    for cfg, num, depth in sims:
        files, r = it.simulate("MC_IndexSim", cfg, num, depth, ctx.seed + 1)
        if r.violated or (r.error and not files):
            ctx.machinery(f"simulation of {cfg} failed: violated={r.violated} error={r.error}\n{r.output[-1500:]}")
        ctx.add("states", r.generated)
        ctx.add("transitions", r.generated)
        res = it.run_behaviours(files, opts)
        for x in res:
            x["cfg"] = cfg
        all_res += res
    sigs = set()
    other = 0
    for x in all_res:
        if "harness_error" in x:
            ctx.machinery(f"replay harness failed on {x['cfg']}/{x['trace']}:\n{x['harness_error'][-1500:]}")
        ctx.add("evaluations", x["commands"])
        ctx.add("behaviours_replayed")
        ctx.add("steps_replayed", x["steps"])
        sigs.add(tuple(x["actions"]))
        mine = [i for i in x["issues"] if cats(i["cat"])]
        other += len(x["issues"]) - len(mine)
        if mine:
            i = mine[0]
            ctx.violation(f"{what}: after {i['action']} (step {i['step']} of {x['cfg']}/{x['trace']}): {i['cat']}: "
                          f"{str(i['detail'])[:400]}",
                          {"cfg": x["cfg"], "trace": x["trace"], "actions": x["actions"], "issues": mine},
                          key=key_of(i) if key_of else None)
    ctx.add("traces_validated_against_impl", len(all_res))
    ctx.set("other_property_issues", other)
    ctx.coverage.setdefault("_sigs", set()).update(sigs)
    return all_res


def finish(ctx, rule: str) -> None:
    sigs = ctx.coverage.pop("_sigs", set())
    ctx.set("distinct_nontrivial", len(sigs))
    ctx.set("rule", rule)
