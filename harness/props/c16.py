"""C16 - template initialisation never overwrites existing files.

Spec: FileOps.tla (FirstMatch, InitResult) with the laws NoClobber and Idempotent checked by TLC on every case of
MC_Template: ordered pattern maps (permutations of up to three of four overlapping patterns with named groups and a
date-like capture) x target paths (root, existing and missing sub-directories) x existing / missing x overwrite flag
x explicit template x an extra variable.  Each case runs the real `zorg template init` twice; the target's bytes
after the first and second call must be the expected ones, and the interposition layer asserts that an existing
target is never written without the overwrite flag.  The other entry points (edit, action open on a link to a missing
page, note move to a missing page) are driven through the same configuration."""
from __future__ import annotations

import json
import random

from .. import par, tlc, zenv
from ..interpose import Interposer

LEVEL = "model_checking"
REGEX = {"daily": r"^(?P<y>\d{4})/(?P<date>\d{8})\.zo$", "done": r"^.*_done\.zo$", "any": r"^.*$", "proj": r"^proj_(?P<name>\w+)\.zo$",
         "tail": r"\d{4}/\d{8}\.zo$"}   # no leading ^: must still match from the start of the relative path
ZOT = {
    "daily": "# template for daily pages\n# second header line\n\n## Day {{ date.strftime('%Y-%m-%d') }} year={{ y }} extra={{ extra }}\n##\n"
             "## ^ = [[{{ y }}/{{ (date - dt.timedelta(days=1)).strftime('%Y%m%d') }}]]\n\n- first {{ extra }}\n\n",
    "done": "# template for done logs\n\n## Done log extra={{ extra }}\n\n\n",
    "any": "# catch-all template\n\n## Any page extra={{ extra }}\n\n- any\n\n",
    "proj": "# project template\n\n## Project {{ name }} extra={{ extra }}\n\n- proj {{ name }}\n\n",
    "tail": "# unanchored-pattern template\n\n## Tail page extra={{ extra }}\n\n- tail\n\n",
    "explicit": "# explicit template\n\n## Explicit extra={{ extra }}\n\n\n",
}


def _env_for(pm):
    env = zenv.ZEnv({"template_pattern_map": {REGEX[p]: f"tmpl/{p}.zot" for p in pm}})
    for name, text in ZOT.items():
        env.write(f"tmpl/{name}.zot", text)
    return env


def _chunk(cases):
    zenv.set_day("2024-06-01")
    bad = []
    for c in cases:
        env = _env_for(c["map"])
        try:
            if c["old"]:
                env.write(c["path"], c["old"])
            target = str(env.path(c["path"]))
            if c.get("noext"):
                target = target[:-3]
            # with the extra variable the caller also passes variables named like the groups the patterns capture: what is
            # captured from the path wins (the rendering MC_Template expects uses the captures)
            args = ["template", "init"] + (["-f"] if c["overwrite"] else []) + [target] + \
                   ([f"extra={c['extra']}", "name=scratch", "y=1999"] if c["extra"] else [])
            seen = []
            for call, want in ((1, c["once"]), (2, c["twice"])):
                with Interposer(env.zdir) as ip:
                    if c["explicit"]:
                        # the CLI's -t option cannot be used (argparse nargs=1 yields a list the config rejects): an explicit
                        # template goes through the service function all four entry points share
                        import re
                        from pathlib import Path
                        from zorg.service.templates import init_from_template

                        class _R:
                            rc, exc, out, err = 0, None, "", ""
                        r = _R()
                        try:
                            init_from_template(env.zdir, {re.compile(REGEX[p]): Path(f"tmpl/{p}.zot") for p in c["map"]}, Path(target),
                                               template=Path("tmpl/explicit.zot"), var_map=({"extra": c["extra"], "name": "scratch", "y": "1999"} if c["extra"] else {}),
                                               should_overwrite_existing=c["overwrite"])
                        except Exception as e:  # noqa: BLE001
                            r.exc = e
                    else:
                        r = env.main(*args)
                got = env.read(c["path"]) if env.exists(c["path"]) else ""
                wrote = [e for e in ip.effects if e["kind"] in ("write", "rename") and e["target"].endswith(c["path"])]
                seen.append({"call": call, "rc": r.rc, "exc": repr(r.exc) if r.exc else None, "content": got, "writes": len(wrote)})
                if r.exc is not None or r.rc != 0 or got != want:
                    bad.append({"case": c, "what": f"content after call {call}", "observed": seen})
                    break
                if c["old"] and not c["overwrite"] and wrote:
                    bad.append({"case": c, "what": "an existing target was written without the overwrite flag", "observed": seen})
                    break
        finally:
            env.cleanup()
    return bad


SEQ_REGEX = {"work": r"^work/(?P<stem>\w+)\.zo$", "home": r"^home/(?P<stem>\w+)\.zo$", "any": r"^(?:.*/)?(?P<stem>\w+)\.zo$"}
SEQ_ZOT = {"work": ("w/log.zot", "# template w\n\n## Work log {{ stem }}\n## (rendered from w/log.zot)\n\n"),
           "home": ("h/log.zot", "# template h\n\n## Home log {{ stem }}\n## (rendered from h/log.zot)\n\n"),
           "any": ("any.zot", "# template any\n\n## Any page\n## (rendered from any.zot)\n\n")}
SEQ_OLD = "# Old content\n\n- 240101#01 keep me\n"


def _seq_chunk(cases):
    """Several targets initialised by one `zorg edit` process (editor stubbed): MC_TemplateSeq."""
    from unittest.mock import MagicMock, patch
    zenv.set_day("2024-06-01")
    bad = []
    for c in cases:
        env = zenv.ZEnv({"template_pattern_map": {SEQ_REGEX[p]: SEQ_ZOT[p][0] for p in c["map"]}})
        try:
            for name, text in SEQ_ZOT.values():
                env.write(name, text)
            for path, ex in c["existing"].items():
                if ex:
                    env.write(path, SEQ_OLD)
            with patch("vimala._vim.proctor.safe_popen", lambda *a, **k: MagicMock()):
                r = env.main("edit", *c["targets"])
            got = {path: (env.read(path) if env.exists(path) else "") for path in c["after"]}
            if r.exc is not None or r.rc != 0:
                bad.append({"case": c, "what": f"zorg edit failed: {r!r} {r.err[-200:]}", "observed": got})
            elif got != c["after"]:
                path = sorted(p for p in got if got[p] != c["after"][p])[0]
                bad.append({"case": c, "what": f"content of {path} after `zorg edit {' '.join(c['targets'])}`", "observed": got, "path": path})
        finally:
            env.cleanup()
    return bad


def _entry_points(ctx):
    """The same rule through the other entry points: action open of a link to a missing / existing page, note move to a
    missing / existing page, edit of a missing / existing page (editor stubbed)."""
    import subprocess
    zenv.set_day("2024-06-01")
    env = _env_for(["proj", "done"])
    try:
        env.write("src.zo", "# Src\n\n- 240101#01 go to [[proj_beta]] and [[proj_keep]]\no 240101#02 finish this\n")
        keep = "# I exist already\n\n- 240101#09 do not touch\n"
        env.write("proj_keep.zo", keep)
        env.write("y_done.zo", keep.replace("#09", "#08"))
        assert env.db_create().ok
        r = env.main("action", "open", str(env.path("src.zo")), "3", "1")
        want = "# Project beta extra=\n\n- proj beta\n"
        if env.read("proj_beta.zo") != want or f"EDIT {env.path('proj_beta.zo')}" not in r.out:
            ctx.violation("action open on a link to a missing page did not create it from the first matching template",
                          {"entry": "action open", "content": env.read("proj_beta.zo") if env.exists("proj_beta.zo") else None, "out": r.out})
        r = env.main("action", "open", str(env.path("src.zo")), "3", "2")
        if env.read("proj_keep.zo") != keep:
            ctx.violation("action open on a link to an existing page changed it", {"entry": "action open", "content": env.read("proj_keep.zo")})
        r = env.main("note", "move", "240101#02", str(env.path("x_done.zo")), "x")
        got = env.read("x_done.zo") if env.exists("x_done.zo") else None
        if r.rc != 0 or got is None or not got.startswith("# Done log extra=\n\n") or "240101#02" not in got:
            ctx.violation("note move to a missing page did not create it from its template", {"entry": "note move", "content": got, "rc": r.rc})
        r = env.main("note", "move", "240101#01", str(env.path("y_done.zo")))
        got = env.read("y_done.zo")
        if r.rc != 0 or not got.startswith(keep.replace("#09", "#08")):
            ctx.violation("note move to an existing page rewrote its existing lines", {"entry": "note move", "content": got, "rc": r.rc})
        # edit: the editor is stubbed; a missing page is initialised, an existing one untouched
        import vimala
        from zorg.service import handlers
        real = handlers.vimala.vim

        class _Ok:
            def unwrap(self):
                return None
        handlers.vimala.vim = lambda *a, **k: _Ok()
        try:
            r = env.main("edit", "proj_gamma.zo", "proj_keep.zo")
        finally:
            handlers.vimala.vim = real
        got = env.read("proj_gamma.zo") if env.exists("proj_gamma.zo") else ""
        # (the edit is followed by a reindex, which gives the template's note its ZID)
        if r.rc != 0 or not (got.startswith("# Project gamma extra=\n\n- ") and got.endswith(" proj gamma\n")):
            ctx.violation("edit of a missing page did not initialise it from its template",
                          {"entry": "edit", "rc": r.rc, "exists": env.exists("proj_gamma.zo"), "err": r.err[-300:]})
        if not env.read("proj_keep.zo").startswith(keep):
            ctx.violation("edit of an existing page changed it", {"entry": "edit", "content": env.read("proj_keep.zo")})
        ctx.add("evaluations", 6)
    finally:
        env.cleanup()


def run(ctx):
    rng = random.Random(ctx.seed)
    r = tlc.run_tlc("MC_Template")
    if not r.ok:
        ctx.machinery(f"MC_Template: {r.violated} {r.error}\n{r.output[-1500:]}")
    ctx.tlc_stats(r, "MC_Template: pattern maps x paths x existing/missing x overwrite x explicit x extra (NoClobber, Idempotent checked)")
    cases = sorted((json.loads(json.loads(l)) for l in r.output.splitlines() if l.startswith('"{')), key=lambda c: json.dumps(c, sort_keys=True))
    if len(cases) < 1000:
        ctx.machinery(f"MC_Template emitted only {len(cases)} cases")
    pool = cases if not ctx.quick else rng.sample(cases, 700)
    jobs = [pool[i:i + 25] for i in range(0, len(pool), 25)]
    bad = [b for part in par.pmap(_chunk, jobs, chunk=1) for b in part]
    groups = {}
    for b in bad:
        c = b["case"]
        groups.setdefault((b["what"], bool(c["old"]), c["overwrite"], bool(c["explicit"])), []).append(b)
    for k, items in sorted(groups.items()):
        b = items[0]
        ctx.violation(f"{len(items)} template init case(s): {k[0]} (existing={k[1]}, overwrite={k[2]}, explicit={k[3]}); e.g. path {b['case']['path']} "
                      f"map {b['case']['map']}: expected {b['case']['once']!r}, observed {b['observed'][-1]}",
                      {"count": len(items), "example": b})
    # several targets in one process
    r2 = tlc.run_tlc("MC_TemplateSeq", cfg="MC_TemplateSeq.cfg")
    if not r2.ok:
        ctx.machinery(f"MC_TemplateSeq: {r2.violated} {r2.error}\n{r2.output[-1500:]}")
    ctx.tlc_stats(r2, "MC_TemplateSeq: 2-3 targets per process, templates sharing base names (Independent, Untouched checked)")
    seq = sorted((json.loads(json.loads(l)) for l in r2.output.splitlines() if l.startswith('"{')), key=lambda c: json.dumps(c, sort_keys=True))
    if len(seq) < 2000:
        ctx.machinery(f"MC_TemplateSeq emitted only {len(seq)} cases")
    spool = seq if not ctx.quick else rng.sample(seq, 240)
    sbad = [b for part in par.pmap(_seq_chunk, [spool[i:i + 10] for i in range(0, len(spool), 10)], chunk=1) for b in part]
    sgroups = {}
    for b in sbad:
        sgroups.setdefault(b["what"].split(" after ")[0][:40], []).append(b)
    for k, items in sorted(sgroups.items()):
        b = items[0]
        ctx.violation(f"{len(items)} multi-target case(s): {b['what']}: expected {b['case']['after'].get(b.get('path'))!r}, "
                      f"observed {b['observed'].get(b.get('path'))!r} (pattern order {b['case']['map']})", {"count": len(items), "example": b})
    ctx.add("evaluations", len(spool))
    ctx.add("traces_validated_against_impl", len(spool))
    _entry_points(ctx)
    ctx.add("evaluations", len(pool))
    ctx.add("traces_validated_against_impl", len(pool))
    ctx.set("distinct_nontrivial", len(pool))
    ctx.set("exhaustive", not ctx.quick)
    ctx.set("rule", "cases = every (pattern map, path, existing/missing, overwrite, explicit template, extra variable) TLC enumerated "
                    "(sampled in quick), each executed twice; plus six directed entry-point runs")
    ctx.sample({k: pool[0][k] for k in ("map", "path", "old", "overwrite", "explicit", "extra", "once")})
    ctx.assume("templates end with a blank line (Jinja drops one final newline); when a pattern matches it takes precedence over -t")


def replay(ctx, rep):
    print(json.dumps(rep["case"], indent=1, default=str)[:5000])
    return 0
