"""C01 - compiling a page yields exactly the notes written in it.

Spec: PageSem.Notes (declarative) refined by PageWalk (listener state machine).
Design level: MC_PageItem - every single-item shape (kind x priority x id-prefix x word
class at body positions 1-2 x continuation), invariants RefinesSem, PrefixLookalikesInert,
RoundTrip, NonItemsNeverNotes.  Binding: every page TLC reached is rendered, compiled by the
real compiler and compared field by field by TLC (Trace_Page); random larger pages over the
full vocabulary go the same way."""
from __future__ import annotations

import random

from .. import pages
from . import pagecommon as pc

LEVEL = "model_checking"
FIELDS = {"count", "line", "kind", "prio", "zid", "cdate", "mdate", "body"}


def sig(rec):
    def ws(w):
        return tuple(x["c"] for x in w[:3])
    return tuple((l["k"], l.get("lvl") or l.get("kind"), l.get("prio", ""), ws(l.get("w", [])), len(l.get("cont", [])))
                 for l in rec["page"]["body"])


def run(ctx):
    rng = random.Random(ctx.seed)
    items, _ = pages.pages_from_tlc("MC_PageItem", "MC_PageItem.cfg", ctx, "MC_PageItem: all single-item shapes")
    items = [p for p in items if p["body"]]
    ctx.set("tlc_item_shapes", len(items))
    chosen = items if not ctx.quick else pc.stratified_items(items, rng, 400)
    cases = [(f"item{i}", p, pages.TODAY) for i, p in enumerate(chosen)]
    cases += pc.random_cases(ctx.seed + 1, 150 if ctx.quick else 4000, lines=(10, 50), meta_p=0.25)
    recs = pages.compile_cases(cases)
    verdicts = pages.tlc_verdicts(recs, ctx, "c01")
    pc.check_records(ctx, recs, verdicts, FIELDS, "C01", sig)
    ctx.add("traces_validated_against_impl", len(recs))
    ctx.set("exhaustive", not ctx.quick)
    for r in (recs[0], recs[-1]):
        from .. import bind_page as bp
        ctx.sample({"page_text": bp.render_page(r["page"])[:600], "notes_compiled": len(r["notes"])})
    pc.finish_nontrivial(ctx, "pages = every state of MC_PageItem (sampled in quick) + random pages of 10-50 lines over the "
                              "full vocabulary; distinct = distinct sequences of (line kind, level/kind, priority, first three "
                              "word classes, continuation count)")
    ctx.assume("ASCII pages inside the declared scope PageWalk!ItemInScope (no identifier-free word before a date/ZID look-alike)")
    ctx.assume("the vocabulary's spelling of each word class (checked against PageSem!WordOK by TLC on every record)")


def replay(ctx, rep):
    return pc.replay_case(ctx, rep, FIELDS)
