"""Parser / printer for TLA+ values as TLC prints them, plus readers for
`-dump dot,actionlabels` graphs and `-simulate file=` trace files.

Python images: int, bool, str, tuple (sequence), frozenset (set), FrozenDict
(record / function), ModelValue.  A function with domain 1..n is returned as a
tuple (TLC prints those as <<...>> anyway)."""
from __future__ import annotations

import re
from pathlib import Path
from typing import Any, Iterator


class FrozenDict(dict):
    def __hash__(self):  # type: ignore[override]
        return hash(frozenset(self.items()))

    def __getattr__(self, k):
        try:
            return self[k]
        except KeyError as e:
            raise AttributeError(k) from e


class ModelValue(str):
    def __repr__(self):
        return f"MV({str.__repr__(self)})"


class _P:
    def __init__(self, s: str):
        self.s = s
        self.i = 0

    def ws(self):
        s, n = self.s, len(self.s)
        while self.i < n and s[self.i] in " \t\r\n":
            self.i += 1

    def peek(self, k=1):
        return self.s[self.i:self.i + k]

    def eat(self, tok: str):
        self.ws()
        if not self.s.startswith(tok, self.i):
            raise ValueError(f"expected {tok!r} at {self.i}: {self.s[self.i:self.i+40]!r}")
        self.i += len(tok)

    def value(self) -> Any:
        self.ws()
        v = self.atom()
        # function-construction operators  a :> b @@ c :> d
        self.ws()
        if self.peek(2) == ":>":
            d = {}
            k = v
            while True:
                self.eat(":>")
                val = self.atom_ws()
                d[k] = val
                self.ws()
                if self.peek(2) == "@@":
                    self.eat("@@")
                    k = self.atom_ws()
                    self.ws()
                    continue
                break
            return _mkfun(d)
        if self.peek(2) == "..":
            self.eat("..")
            hi = self.atom_ws()
            return frozenset(range(v, hi + 1))
        return v

    def atom_ws(self):
        self.ws()
        return self.atom()

    def atom(self) -> Any:
        s = self.s
        c = self.peek()
        if c == '"':
            j = self.i + 1
            out = []
            while s[j] != '"':
                if s[j] == "\\":
                    j += 1
                    out.append({"n": "\n", "t": "\t"}.get(s[j], s[j]))
                else:
                    out.append(s[j])
                j += 1
            self.i = j + 1
            return "".join(out)
        if self.peek(2) == "<<":
            self.i += 2
            items = self.items(">>")
            return tuple(items)
        if c == "{":
            self.i += 1
            return frozenset(self.items("}"))
        if c == "(":
            self.i += 1
            v = self.value()
            self.eat(")")
            return v
        if c == "[":
            self.i += 1
            self.ws()
            d = {}
            if self.peek() == "]":
                self.i += 1
                return FrozenDict()
            while True:
                self.ws()
                m = re.compile(r"[A-Za-z_][A-Za-z0-9_]*").match(s, self.i)
                if not m:
                    raise ValueError(f"record field expected at {self.i}: {s[self.i:self.i+40]!r}")
                k = m.group(0)
                self.i = m.end()
                self.eat("|->")
                d[k] = self.value()
                self.ws()
                if self.peek() == ",":
                    self.i += 1
                    continue
                self.eat("]")
                return FrozenDict(d)
        m = re.compile(r"-?\d+").match(s, self.i)
        if m:
            self.i = m.end()
            return int(m.group(0))
        m = re.compile(r"[A-Za-z_][A-Za-z0-9_]*").match(s, self.i)
        if m:
            self.i = m.end()
            w = m.group(0)
            if w == "TRUE":
                return True
            if w == "FALSE":
                return False
            return ModelValue(w)
        raise ValueError(f"cannot parse value at {self.i}: {s[self.i:self.i+60]!r}")

    def items(self, close: str) -> list:
        out = []
        self.ws()
        if self.s.startswith(close, self.i):
            self.i += len(close)
            return out
        while True:
            out.append(self.value())
            self.ws()
            if self.peek() == ",":
                self.i += 1
                continue
            self.eat(close)
            return out


def _mkfun(d: dict):
    ks = list(d.keys())
    if ks and all(isinstance(k, int) and not isinstance(k, bool) for k in ks) and sorted(ks) == list(range(1, len(ks) + 1)):
        return tuple(d[i] for i in range(1, len(ks) + 1))
    return FrozenDict(d)


def parse(text: str) -> Any:
    p = _P(text)
    v = p.value()
    p.ws()
    if p.i != len(p.s):
        raise ValueError(f"trailing text at {p.i}: {text[p.i:p.i+40]!r}")
    return v


def parse_state(text: str) -> FrozenDict:
    """Parses `/\\ x = v /\\ y = w` (a TLC state) into {x: v, y: w}."""
    p = _P(text)
    d = {}
    while True:
        p.ws()
        if p.i >= len(p.s):
            break
        if p.peek(2) == "/\\":
            p.i += 2
        p.ws()
        m = re.compile(r"[A-Za-z_][A-Za-z0-9_]*").match(p.s, p.i)
        if not m:
            raise ValueError(f"variable expected at {p.i}: {p.s[p.i:p.i+40]!r}")
        p.i = m.end()
        p.eat("=")
        d[m.group(0)] = p.value()
    return FrozenDict(d)


def to_tla(v: Any) -> str:
    if isinstance(v, bool):
        return "TRUE" if v else "FALSE"
    if isinstance(v, ModelValue):
        return str(v)
    if isinstance(v, int):
        return str(v)
    if isinstance(v, str):
        return '"' + v.replace("\\", "\\\\").replace('"', '\\"').replace("\n", "\\n") + '"'
    if isinstance(v, (tuple, list)):
        return "<<" + ", ".join(to_tla(x) for x in v) + ">>"
    if isinstance(v, (set, frozenset)):
        return "{" + ", ".join(sorted(to_tla(x) for x in v)) + "}"
    if isinstance(v, dict):
        if not v:
            return "<<>>"
        if all(isinstance(k, str) and re.fullmatch(r"[A-Za-z_][A-Za-z0-9_]*", k) and not isinstance(k, ModelValue) for k in v):
            return "[" + ", ".join(f"{k} |-> {to_tla(x)}" for k, x in v.items()) + "]"
        return "(" + " @@ ".join(f"{to_tla(k)} :> {to_tla(x)}" for k, x in v.items()) + ")"
    if v is None:
        return "NoneV"
    raise TypeError(type(v))


def to_py(v: Any) -> Any:
    """JSON-able image (sets -> sorted lists by repr, dict keys -> str)."""
    if isinstance(v, (frozenset, set)):
        return sorted((to_py(x) for x in v), key=repr)
    if isinstance(v, tuple):
        return [to_py(x) for x in v]
    if isinstance(v, dict):
        return {str(k): to_py(x) for k, x in v.items()}
    if isinstance(v, ModelValue):
        return str(v)
    return v


# ---------------------------------------------------------------- dot graphs
_RE_NODE = re.compile(r'^(-?\d+) \[label="')
_RE_EDGE = re.compile(r'^(-?\d+) -> (-?\d+) \[label="')


def _quoted(line: str, start: int) -> tuple[str, int]:
    """Reads a dot string starting right after its opening quote; returns (raw text, index after closing quote)."""
    i = start
    while True:
        c = line[i]
        if c == "\\":
            i += 2
            continue
        if c == '"':
            return line[start:i], i + 1
        i += 1


def _unescape_dot(s: str) -> str:
    out = []
    i = 0
    while i < len(s):
        c = s[i]
        if c == "\\" and i + 1 < len(s):
            n = s[i + 1]
            if n == "n":
                out.append("\n")
                i += 2
                continue
            if n == "l":
                out.append("\n")
                i += 2
                continue
            if n == '"':
                out.append('"')
                i += 2
                continue
            if n == "\\":
                out.append("\\")
                i += 2
                continue
        out.append(c)
        i += 1
    return "".join(out)


class Graph:
    def __init__(self):
        self.nodes: dict[int, FrozenDict] = {}
        self.init: list[int] = []
        self.edges: list[tuple[int, int, str]] = []   # (src, dst, action label)

    def succ(self) -> dict[int, list[tuple[str, int]]]:
        d: dict[int, list[tuple[str, int]]] = {n: [] for n in self.nodes}
        for a, b, l in self.edges:
            d[a].append((l, b))
        return d


def read_dot(path: Path) -> Graph:
    g = Graph()
    with open(path, encoding="utf-8") as f:
        for line in f:
            line = line.rstrip("\n")
            m = _RE_EDGE.match(line)
            if m:
                raw, _ = _quoted(line, m.end())
                g.edges.append((int(m.group(1)), int(m.group(2)), _unescape_dot(raw)))
                continue
            m = _RE_NODE.match(line)
            if m:
                nid = int(m.group(1))
                raw, end = _quoted(line, m.end())
                g.nodes[nid] = parse_state(_unescape_dot(raw))
                if line[end:].startswith(",style = filled"):
                    g.init.append(nid)
    return g


def parse_action_label(label: str) -> tuple[str, list]:
    """`Alloc(1, "x")` -> ("Alloc", [1, "x"]);  `Next` -> ("Next", [])."""
    label = label.strip()
    m = re.match(r"^(\w+)\((.*)\)$", label, re.S)
    if not m:
        return label, []
    args = parse("<<" + m.group(2) + ">>")
    return m.group(1), list(args)


# ------------------------------------------------------- simulate trace files
_RE_STATE_HDR = re.compile(r"^STATE_(\d+) ==\s*$")
_RE_ACT = re.compile(r"^\\\* <(\w+)(\(.*\))? line")


def read_sim_trace(path: Path) -> list[tuple[str, FrozenDict]]:
    """Returns [(action_name, state)] for one `-simulate file=` output."""
    out = []
    act = "Init"
    buf: list[str] = []
    in_state = False
    for line in Path(path).read_text().splitlines():
        m = _RE_ACT.match(line)
        if m:
            act = m.group(1)
            continue
        if _RE_STATE_HDR.match(line):
            in_state = True
            buf = []
            continue
        if in_state:
            if line.strip() == "":
                if buf:
                    out.append((act, parse_state("\n".join(buf))))
                in_state = False
                buf = []
            else:
                buf.append(line)
    if in_state and buf:
        out.append((act, parse_state("\n".join(buf))))
    return out


def iter_printed(output: str, tag: str) -> Iterator[Any]:
    """Yields the values of TLC `PrintT(<<tag, v>>)` lines by bracket matching."""
    key = f'<<"{tag}", '
    i = 0
    while True:
        j = output.find(key, i)
        if j < 0:
            return
        p = _P(output)
        p.i = j
        v = p.atom()
        i = p.i
        yield v[1]
