"""Glue for C09: index rows -> Output.tla notes; rendered result text -> entries with header paths."""
from __future__ import annotations

import json
import re

from . import bind_index as bi
from . import bind_page as bp
from . import bind_query as bq
from . import tlc

T = bq.T
MARK = {"#" * 32: 1, "=" * 24: 2, "+" * 16: 3, "-" * 8: 4}


def out_universe(env) -> list:
    """Raw rows -> notes in the shape of Output.tla (texts as code points)."""
    rows = env.db_notes()
    secs = bi._row_sections(env.db_path)
    out = []
    for r in rows:
        kind = bp.NOTE_TYPE_CHAR[r["todo_status"]] if r["todo_status"] else "-"
        prio = (r["todo_priority"] or "") if kind != "-" else ""
        text = kind + (f" {prio}" if kind in "o<>" else "") + " " + r["body"].strip()      # PageSem!RenderNote (bound by C12)
        out.append({
            "zid": r["zid"], "text": T(text), "alpha": T(text + "\n"), "page": T(r["page_path"]), "line": r["line_no"], "linetxt": T(str(r["line_no"])),
            "kind": kind, "prio": T(prio), "cd": bq.ymd(r["create_date"]), "md": bq.ymd(r["modify_date"]),
            "tags": {ty: [T(x) for x in r[ty]] for ty in ("areas", "contexts", "people", "projects")},
            "vals": [{"key": T(k), "val": T(v)} for k, v in r["properties"].items()],
            "links": [T(x) for x in r["links"]],
            "sec": [T(x) for x in secs.get(r["id"], (("", "", "", ""), None))[0]]})
    return out


def parse_output(text: str, select_t: str) -> list:
    """Rendered result -> entries [{path: [l1..l4], text | n}] in order of appearance."""
    path = [[], [], [], []]
    entries = []
    cur = None
    for line in text.split("\n"):
        m = re.match(r"^(#{32}|={24}|\+{16}|-{8}) (.*)$", line)
        if m:
            lvl = MARK[m.group(1)]
            path[lvl - 1] = T(m.group(2))
            for k in range(lvl, 4):
                path[k] = []
            cur = None
            continue
        if line == "":
            cur = None
            continue
        if select_t == "NOTE":
            if re.match(r"^[-ox~<>] ", line) or cur is None:
                cur = {"path": [list(p) for p in path], "text": T(line)}
                entries.append(cur)
            else:
                cur["text"] += T("\n" + line)
        elif select_t == "COUNT":
            entries.append({"path": [list(p) for p in path], "text": T(line), "n": int(line) if line.isdigit() else -1})
        else:
            entries.append({"path": [list(p) for p in path], "text": T(line)})
    return entries


def tlc_output_verdicts(universes: list, records: list, ctx, tag: str, batch: int = 5000) -> dict:
    if len(records) > batch:
        out = {}
        for i in range(0, len(records), batch):
            out.update(tlc_output_verdicts(universes, records[i:i + batch], ctx, f"{tag}-{i // batch}", batch))
        return out
    root = tlc.scratch_root()
    fu, fr = root / f"ouniv-{tag}.ndjson", root / f"outputs-{tag}.ndjson"
    fu.write_text("".join(json.dumps({"notes": u}) + "\n" for u in universes))
    fr.write_text("".join(json.dumps({k: r[k] for k in ("id", "u", "m", "q", "e")}) + "\n" for r in records))
    res = tlc.run_tlc("Trace_Output", env={"ZV_UNIV": str(fu), "ZV_TRACE": str(fr)})
    if not res.ok:
        ctx.machinery(f"Trace_Output failed ({tag}): {res.error}\n{res.output[-2500:]}")
    out = {}
    for line in res.output.splitlines():
        if line.startswith('"[\\"RES\\"'):
            t = json.loads(json.loads(line))
            out[t[1]] = t[2]
    missing = [r["id"] for r in records if r["id"] not in out]
    if missing:
        ctx.machinery(f"Trace_Output gave no verdict for {len(missing)} records, e.g. {missing[:3]}")
    ctx.add("states", res.distinct)
    ctx.add("transitions", res.generated)
    return out
