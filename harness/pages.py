"""Shared pipeline of the page properties (C01, C02, C08, C12):
abstract pages -> text -> real compiler -> projected notes -> NDJSON -> TLC (Trace_Page) -> per-field verdicts."""
from __future__ import annotations

import json
from pathlib import Path

from . import bind_page as bp
from . import par, tlc, tlaval, zenv

TODAY = "2024-06-01"


def pages_from_tlc(module: str, cfg: str, ctx=None, label: str = "", emit: bool = True) -> tuple[list, "tlc.TlcResult"]:
    """Model-checks a PageWalk configuration and returns every distinct page it reached (EmitPage)."""
    r = tlc.run_tlc(module, cfg=cfg, coverage=True, env={"ZV_EMIT": "1" if emit else "0"})
    pages = []
    for line in (r.output.splitlines() if emit else []):
        if line.startswith('"{'):
            try:
                pages.append(json.loads(json.loads(line))["page"])
            except Exception:
                continue
    pages.sort(key=lambda p: json.dumps(p, sort_keys=True))      # TLC's worker interleaving must not decide what is sampled
    if ctx is not None:
        ctx.require_tlc_ok(r, label or f"{module}/{cfg}")
        ctx.tlc_stats(r, label or f"{module}/{cfg}")
        if emit and len(pages) != r.distinct:
            ctx.machinery(f"{module}/{cfg}: {len(pages)} pages emitted for {r.distinct} distinct states")
    return pages, r


_ROUNDTRIP = False


def _compile_chunk_rt(cases: list) -> list:
    global _ROUNDTRIP
    _ROUNDTRIP = True
    try:
        return _compile_chunk(cases)
    finally:
        _ROUNDTRIP = False


def _compile_chunk(cases: list) -> list:
    zenv.set_day(TODAY)
    env = zenv.ZEnv()
    out = []
    try:
        for rid, page, today in cases:
            if today != TODAY:
                zenv.set_day(today)
            out.append(bp.compile_record(env, "p.zo", rid, page, today, roundtrip=_ROUNDTRIP))
            if today != TODAY:
                zenv.set_day(TODAY)
    finally:
        env.cleanup()
    return out


def compile_cases(cases: list, chunk: int = 0, roundtrip: bool = False) -> list:
    """cases: [(id, abstract page, today)] -> trace records, compiled by the real compiler in parallel."""
    chunk = chunk or max(1, min(50, -(-len(cases) // (par.NPROC * 3))))
    # deal the cases out like cards: sources come in runs of equal cost (one-line items, then 40-line random pages)
    k = max(1, -(-len(cases) // chunk))
    chunks = [cases[j::k] for j in range(k)]
    done = par.pmap(_compile_chunk_rt if roundtrip else _compile_chunk, chunks, chunk=1)
    out = [None] * len(cases)
    for j, part in enumerate(done):
        for i, r in enumerate(part):
            out[j + i * k] = r
    return out


def tlc_verdicts(records: list, ctx, tag: str, batch: int = 4000) -> dict:
    """Has TLC evaluate PageSem on every record (in batches of one JVM each).
    -> {id: dict(res, nexp, nobs, bad={(note#, field)})}"""
    if len(records) > batch:
        out = {}
        for i in range(0, len(records), batch):
            out.update(tlc_verdicts(records[i:i + batch], ctx, f"{tag}-{i // batch}", batch))
        return out
    f = tlc.scratch_root() / f"page-trace-{tag}.ndjson"
    with open(f, "w") as fh:
        for r in records:
            fh.write(json.dumps({k: r[k] for k in ("id", "page", "today", "res", "notes", "mode", "res2", "notes2") if k in r}) + "\n")
    res = tlc.run_tlc("Trace_Page", env={"ZV_TRACE": str(f)})
    if not res.ok:
        ctx.machinery(f"Trace_Page failed on {tag}: {res.error}\n{res.output[-3000:]}")
    out = {}
    glue = []
    for tup in _iter_tuples(res.output):
        if tup[0] == "GLUE":
            glue.append(tup[1])
        elif tup[0] == "RES":
            out[tup[1]] = {"res": tup[2], "nexp": tup[3], "nobs": tup[4], "bad": {(b[0], b[1]) for b in tup[5]},
                           "exp": {(b[0], b[1]): b[2] for b in tup[5]}}
    if glue:
        ctx.machinery(f"glue self-check failed (WordOK / WellFormedPage) on records {glue[:5]}")
    missing = [r["id"] for r in records if r["id"] not in out]
    if missing:
        ctx.machinery(f"Trace_Page returned no verdict for {len(missing)} records, e.g. {missing[:3]}")
    ctx.add("states", res.distinct)
    ctx.add("transitions", res.generated)
    f.unlink()
    return out


def _iter_tuples(output: str):
    """Verdicts are printed as one-line JSON strings: "[\"RES\", ...]"."""
    for line in output.splitlines():
        if line.startswith('"[\\"RES\\"') or line.startswith('"[\\"GLUE\\"'):
            try:
                yield json.loads(json.loads(line))
            except Exception:
                continue
