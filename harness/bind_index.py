"""Glue between the abstract directory of spec/Index.tla and a real notes directory.

Abstract page p  <->  file PAGE_FILE[p];  abstract note  <->  one item
    <kind>[ <prio>]<gap spaces>[<md YYMMDD> ][<zid> ][<ld YYYY-MM-DD> ]u<uid>v<ver> q::u<uid> +t<uid>
    [  * b<uid>v<ver>]                       (second line when nl = 2)
Day d <-> BASE + (d - 1).  Abstract ZID <<day, n>> <-> a real ZID of that day; which one is
don't-care: both sides are compared after canonical relabelling (per day, order of first
occurrence in a fixed traversal).  A line that does not have the shape above projects to
the token Corrupt, which no specification state contains."""
from __future__ import annotations

import datetime as dt
import re
import sqlite3
from pathlib import Path

from . import bind_page as bp
from . import zenv

BASE = dt.date(2024, 12, 29)      # day 1; the six days of a history cross the month and the year
PAGE_FILE = {1: "a.zo", 2: "sub/b.zo", 3: "c.zo", 4: "sub/d.zo", 5: "e.zo", 6: "f.zo"}
FILE_PAGE = {v: k for k, v in PAGE_FILE.items()}
# fixed decorations so that the real-level agreement check also sees inherited metadata and sections
PAGE_HEAD = {1: "# Page one +pj_a #ar_a\n\n",
             2: "# Page two @cx_b\n# k_b::v_b\n\n################################ Sec %pe_b\n\n",
             3: "# Page three\n\n======================== Sub [[a]]\n",
             4: "# Page four\n\n", 5: "# Page five\n\n", 6: "# Page six\n\n"}
BROKEN_LINE = "!!broken line\n"


def day_date(d: int) -> dt.date:
    return BASE + dt.timedelta(days=d - 1)


def date_day(x: dt.date) -> int:
    return (x - BASE).days + 1


def d6(d: int) -> str:
    return day_date(d).strftime("%y%m%d")


def d10(d: int) -> str:
    return day_date(d).isoformat()


_ITEM = re.compile(r"^(?P<kind>[-ox~<>])(?: (?P<prio>P\d))?(?P<gap> +)(?:(?P<md>\d{6}) )?(?:(?P<zid>\d{6}#\w{2,3}) )?"
                   r"(?:(?P<ld>\d{4}-\d\d-\d\d) )?u(?P<uid>\d+)v(?P<ver>\d) q::u(?P<quid>\d+) \+t(?P<tuid>\d+)$")
_CONT = re.compile(r"^  \* b(?P<uid>\d+)v(?P<ver>\d)$")
_BODY = re.compile(r"^(?:(?P<md>\d{6}) )?(?:(?P<zid>\d{6}#\w{2,3}) )?(?:(?P<ld>\d{4}-\d\d-\d\d) )?u(?P<uid>\d+)v(?P<ver>\d)"
                   r" q::u(?P<quid>\d+) \+t(?P<tuid>\d+)"
                   r"(?P<cont>\n  \* b(?P<cuid>\d+)v(?P<cver>\d))?$")
CORRUPT = "Corrupt"


def _day6(s: str):
    try:
        return date_day(dt.datetime.strptime("20" + s, "%Y%m%d").date())
    except ValueError:
        return CORRUPT


def _day10(s: str):
    try:
        return date_day(dt.date.fromisoformat(s))
    except ValueError:
        return CORRUPT


class Dir:
    """A real notes directory driven by abstract Index.tla states."""

    def __init__(self, names: dict | None = None):
        self.env = zenv.ZEnv()
        self.names = dict(names or PAGE_FILE)      # page number -> file (e.g. two pages with the same base name)
        self.zmap: dict = {}          # abstract zid (day, n) -> real zid string, for rendering user edits

    def cleanup(self):
        self.env.cleanup()

    # ------------------------------------------------------------ rendering
    def render_note(self, n: dict) -> str:
        zid = tuple(n["zid"])
        words = []
        if n["md"]:
            words.append(d6(n["md"]))
        if zid:
            words.append(self.zmap[zid])
        if n["ld"]:
            words.append(d10(n["ld"]))
        words.append(f"u{n['uid']}v{n['ver']}")
        words += [f"q::u{n['uid']}", f"+t{n['uid']}"]        # every note owns a property and a tag nobody else has
        line = n["kind"] + (f" {n['prio']}" if n["prio"] else "") + " " * n["gap"] + " ".join(words) + "\n"
        if n["nl"] == 2:
            line += f"  * b{n['uid']}v{n['ver']}\n"
        return line

    def render_page(self, p: int, pg: dict) -> str:
        return PAGE_HEAD[p] + "".join(self.render_note(n) for n in pg["notes"]) + (BROKEN_LINE if pg["broken"] else "")

    def write_files(self, files: dict, only_changed_from: dict | None = None) -> None:
        """Makes the real pages look like the abstract `files` (a user edit)."""
        for p, pg in files.items():
            path = self.env.path(self.names[p])
            if only_changed_from is not None and only_changed_from.get(p) == pg:
                continue
            if not pg["ex"]:
                if path.exists():
                    path.unlink()
            else:
                self.env.write(self.names[p], self.render_page(p, pg))

    # ----------------------------------------------------------- projection
    def project_file(self, p: int):
        path = self.env.path(self.names[p])
        if not path.exists():
            return {"ex": False, "broken": False, "notes": []}
        text = path.read_text()
        head = PAGE_HEAD[p]
        if not text.startswith(head):
            return CORRUPT
        lines = text[len(head):].split("\n")
        if lines and lines[-1] == "":
            lines.pop()
        broken = False
        if lines and lines[-1] + "\n" == BROKEN_LINE:
            broken = True
            lines.pop()
        notes = []
        i = 0
        while i < len(lines):
            m = _ITEM.match(lines[i])
            if not m or not (m["uid"] == m["quid"] == m["tuid"]):
                return CORRUPT
            n = {"uid": int(m["uid"]), "zid": m["zid"] or "", "ver": int(m["ver"]), "kind": m["kind"], "prio": m["prio"] or "",
                 "md": _day6(m["md"]) if m["md"] else 0, "ld": _day10(m["ld"]) if m["ld"] else 0, "gap": len(m["gap"]), "nl": 1}
            i += 1
            if i < len(lines):
                c = _CONT.match(lines[i])
                if c:
                    if int(c["uid"]) != n["uid"] or int(c["ver"]) != n["ver"]:
                        return CORRUPT
                    n["nl"] = 2
                    i += 1
            notes.append(n)
        return {"ex": True, "broken": broken, "notes": notes}

    def project_files(self, pages) -> dict:
        return {p: self.project_file(p) for p in pages}

    def project_db(self, pages) -> dict:
        """Index rows -> abstract db (zid as the real string)."""
        rows = self.env.db_notes()
        con = sqlite3.connect(f"file:{self.env.db_path}?mode=ro", uri=True) if self.env.db_path.exists() else None
        indexed = {}
        if con is not None:
            try:
                for path, has_err in con.execute("SELECT path, has_errors FROM page"):
                    indexed.setdefault(path, []).append(bool(has_err))
            except sqlite3.OperationalError:
                pass
            con.close()
        out = {}
        for p in pages:
            f = self.names[p]
            if f not in indexed:
                out[p] = {"ex": False, "broken": False, "notes": []}
                continue
            if len(indexed[f]) > 1:
                out[p] = CORRUPT + ":page-indexed-twice"
                continue
            notes = []
            bad = None
            for r in sorted((r for r in rows if r["page_path"] == f), key=lambda r: (r["line_no"], r["id"])):
                m = _BODY.match(r["body"])
                if not m or not (m["uid"] == m["quid"] == m["tuid"]):
                    bad = CORRUPT + ":body " + repr(r["body"])
                    break
                if r["properties"].get("q") != "u" + m["uid"] or ("t" + m["uid"]) not in r["projects"]:
                    bad = CORRUPT + f":row of u{m['uid']} lost its own property / tag: {r['properties']} {r['projects']}"
                    break
                kind = bp.NOTE_TYPE_CHAR[r["todo_status"]] if r["todo_status"] else "-"
                notes.append({
                    "zid": r["zid"] or "",
                    "body": [_day6(m["md"]) if m["md"] else 0, m["zid"] or "", _day10(m["ld"]) if m["ld"] else 0,
                             int(m["ver"]), 2 if m["cont"] else 1],
                    "uid": int(m["uid"]),
                    "kind": kind, "prio": (r["todo_priority"] or "") if kind != "-" else "",
                    "cd": _day10(r["create_date"]), "md": _day10(r["modify_date"]), "line": r["line_no"]})
            out[p] = bad or {"ex": True, "broken": indexed[f][0], "notes": notes}
        return out


# ------------------------------------------------------------------ comparison
def canon_state(files: dict, db: dict, zid_day) -> tuple:
    """Relabels ZIDs per day in order of first occurrence (files in page order, then db) and drops what the
    abstraction does not carry.  zid_day(z) -> day of a ZID token (abstract tuple or real string)."""
    label: dict = {}
    count: dict = {}

    def lab(z):
        if z in ("", (), []):
            return ()
        z = tuple(z) if isinstance(z, (list, tuple)) else z
        if z not in label:
            d = zid_day(z)
            label[z] = (d, count.get(d, 0))
            count[d] = count.get(d, 0) + 1
        return label[z]

    cf = {}
    for p in sorted(files):
        pg = files[p]
        if isinstance(pg, str):
            cf[p] = pg
            continue
        cf[p] = (pg["ex"], pg["broken"], tuple(
            (n["uid"], lab(n["zid"]), n["ver"], n["kind"], n["prio"], n["md"], n["ld"], n["gap"], n["nl"]) for n in pg["notes"]))
    cd = {}
    for p in sorted(db):
        ip = db[p]
        if isinstance(ip, str):
            cd[p] = ip
            continue
        cd[p] = (ip["ex"], ip["broken"], tuple(
            (lab(n["zid"]), (n["body"][0], lab(n["body"][1]), n["body"][2], n["body"][3], n["body"][4]),
             n["kind"], n["prio"], n["cd"], n["md"]) for n in ip["notes"]))
    return cf, cd


def abs_zid_day(z):
    return z[0]


def real_zid_day(z):
    return _day6(z[:6]) if isinstance(z, str) else z[0]


def diff_states(exp_files, exp_db, obs_files, obs_db) -> list:
    """-> [(category, page, detail)] ; categories: files.* / db.* ; empty = equal up to ZID renaming."""
    ef, ed = canon_state(exp_files, exp_db, abs_zid_day)
    of, od = canon_state(obs_files, obs_db, real_zid_day)
    out = []
    for p in ef:
        if ef[p] != of[p]:
            out.append(("files", p, {"expected": ef[p], "observed": of[p]}))
    for p in ed:
        if ed[p] != od[p]:
            out.append(("db", p, {"expected": ed[p], "observed": od[p]}))
    return out


# ------------------------------------------------------ real-level agreement
def _row_sections(db_path: Path) -> dict:
    """note id -> (h1 title, h2 title, h3 title, h4 title, block id), read with sqlite3."""
    con = sqlite3.connect(f"file:{db_path}?mode=ro", uri=True)
    cur = con.cursor()
    h1 = {i: (t, pid) for i, t, pid in cur.execute("SELECT id, title, page_id FROM h1")}
    h2 = {i: (t, h) for i, t, h in cur.execute("SELECT id, title, h1_id FROM h2")}
    h3 = {i: (t, h) for i, t, h in cur.execute("SELECT id, title, h2_id FROM h3")}
    h4 = {i: (t, h) for i, t, h in cur.execute("SELECT id, title, h3_id FROM h4")}
    blocks = {i: (a, b, c, d) for i, a, b, c, d in cur.execute("SELECT id, h1_id, h2_id, h3_id, h4_id FROM block")}
    out = {}
    for nid, bid in cur.execute("SELECT id, block_id FROM note"):
        a, b, c, d = blocks.get(bid, (None, None, None, None))
        path = ["", "", "", ""]
        try:
            if d is not None:
                path[3] = h4[d][0]
                c = h4[d][1]
                path[2] = h3[c][0]
                b = h3[c][1]
                path[1] = h2[b][0]
                a = h2[b][1]
                path[0] = h1[a][0]
            elif c is not None:
                path[2] = h3[c][0]
                b = h3[c][1]
                path[1] = h2[b][0]
                a = h2[b][1]
                path[0] = h1[a][0]
            elif b is not None:
                path[1] = h2[b][0]
                a = h2[b][1]
                path[0] = h1[a][0]
            elif a is not None:
                path[0] = h1[a][0]
        except KeyError:
            path = ["<dangling section>"] * 4
        out[nid] = (tuple(path), bid)
    con.close()
    return out


def agreement_real(env) -> list:
    """C05's own oracle on the real stores: recompiling every .zo file (real compiler) gives exactly the indexed
    notes (raw rows): page, line, section path, block partition, ZID, kind, priority, body, dates, tags, links,
    properties.  -> list of differences."""
    diffs = []
    rows = env.db_notes()
    secs = _row_sections(env.db_path) if env.db_path.exists() else {}
    by_page: dict = {}
    for r in rows:
        by_page.setdefault(r["page_path"], []).append(r)
    files = sorted(str(p.relative_to(env.zdir)) for p in env.zdir.rglob("*.zo"))
    for f in sorted(set(files) | set(by_page)):
        if f not in files:
            diffs.append((f, "page indexed but no such file", len(by_page[f])))
            continue
        pg = env.compile(f)
        want = bp.project_page(pg)
        got = sorted(by_page.get(f, []), key=lambda r: (r["line_no"], r["id"]))
        if len(want) != len(got):
            diffs.append((f, "note count", {"file": len(want), "index": len(got)}))
            continue
        blk_w, blk_g = {}, {}
        for w, g in zip(want, got):
            kind = bp.NOTE_TYPE_CHAR[g["todo_status"]] if g["todo_status"] else "-"
            gsec, gblk = secs.get(g["id"], (("?",) * 4, None))
            cmp = [("line", w["line"], g["line_no"]), ("zid", w["zid"], g["zid"] or ""), ("kind", w["kind"], kind),
                   ("prio", w["prio"], g["todo_priority"] or ""), ("body", w["body"], g["body"]),
                   ("cdate", w["cdate"], g["create_date"]), ("mdate", w["mdate"], g["modify_date"]),
                   ("tags", sorted(map(tuple, w["tags"])),
                    sorted([("areas", x) for x in g["areas"]] + [("contexts", x) for x in g["contexts"]]
                           + [("people", x) for x in g["people"]] + [("projects", x) for x in g["projects"]])),
                   ("links", sorted(w["links"]), sorted(g["links"])),
                   ("props", sorted(map(tuple, w["props"])), sorted(g["properties"].items())),
                   ("section", tuple(w["sec"]), tuple(gsec))]
            for name, a, b in cmp:
                if a != b:
                    diffs.append((f, f"line {w['line']} {name}", {"file": a, "index": b}))
            blk_w.setdefault(w["blk"], []).append(w["line"])
            blk_g.setdefault(gblk, []).append(w["line"])
        if sorted(blk_w.values()) != sorted(blk_g.values()):
            diffs.append((f, "block partition", {"file": sorted(blk_w.values()), "index": sorted(blk_g.values())}))
    return diffs


def canonical_dump(env) -> list:
    """The index as a value independent of SQL ids (for rebuild equivalence): sorted note tuples."""
    rows = env.db_notes()
    secs = _row_sections(env.db_path) if env.db_path.exists() else {}
    out = []
    for r in rows:
        out.append((r["page_path"], r["line_no"], r["zid"], r["todo_status"], r["todo_priority"], r["body"], r["create_date"],
                    r["modify_date"], tuple(r["areas"]), tuple(r["contexts"]), tuple(r["people"]), tuple(r["projects"]),
                    tuple(r["links"]), tuple(sorted(r["properties"].items())), secs.get(r["id"], ((), None))[0]))
    return sorted(out, key=repr)
