"""Glue between abstract pages (spec/PageSem.tla) and .zo text / real Note objects.

Deliberately dumb: render = concatenate the spellings the vocabulary carries;
project = copy fields of the real objects.  Nothing here decides what a word
means; PageSem does, and TLC (Trace_Page) performs every comparison, including
the check that each word's spelling matches its class fields (WordOK)."""
from __future__ import annotations

import random
from typing import Optional

SEC_MARK = {1: "#" * 32, 2: "=" * 24, 3: "+" * 16, 4: "-" * 8}
TAGSYM = {"areas": "#", "contexts": "@", "people": "%", "projects": "+"}
NOTE_TYPE_CHAR = {"OPEN_TODO": "o", "CLOSED_TODO": "x", "CANCELED_TODO": "~", "BLOCKED_TODO": "<", "PARENT_TODO": ">"}


# ------------------------------------------------------------------ rendering
def joinw(ws) -> str:
    return " ".join(w["txt"] for w in ws)


def cont_txt(cl) -> str:
    ind = " " * cl["ind"]
    trail = " " * cl.get("trail", 0)
    if cl["k"] == "ws":
        return ind
    if cl["k"] == "text":
        return ind + joinw(cl["w"]) + trail
    if cl["k"] == "bullet":
        return f"{ind}{cl['mark']} {joinw(cl['w'])}{trail}"
    return f"{ind}{cl['mark']} {cl['key']}:: {joinw(cl['w'])}{trail}"


def render_line(l) -> str:
    k = l["k"]
    if k == "blank":
        return "\n"
    if k == "sec":
        return f"{SEC_MARK[l['lvl']]} {joinw(l['w'])}\n"
    if k == "cmt":
        return f"# {joinw(l['w'])}\n"
    out = l["kind"] + (f" {l['prio']}" if l["prio"] else "") + " " * l["gap"] + joinw(l["w"]) + "\n"
    for cl in l["cont"]:
        out += cont_txt(cl) + "\n"
    return out


def render_page(p) -> str:
    out = f"# {joinw(p['title'])}\n"
    for h in p["head"]:
        out += f"# {joinw(h)}\n"
    out += "\n"
    for l in p["body"]:
        out += render_line(l)
    return out


# ----------------------------------------------------------------- projection
def _blocks_in_order(page) -> list:
    h1s = list(page.h1s)
    if page.h0:
        h1s = [page.h0] + h1s
    blocks = []
    for h1 in h1s:
        blocks.extend(h1.blocks)
        for h2 in h1.h2s:
            blocks.extend(h2.blocks)
            for h3 in h2.h3s:
                blocks.extend(h3.blocks)
                for h4 in h3.h4s:
                    blocks.extend(h4.blocks)
    return blocks


def _sec_paths(page) -> dict:
    """id(block) -> [h1 title, h2 title, h3 title, h4 title] ('' where none)."""
    h1s = list(page.h1s)
    if page.h0:
        h1s = [page.h0] + h1s
    out = {}
    for h1 in h1s:
        for b in h1.blocks:
            out[id(b)] = [h1.title, "", "", ""]
        for h2 in h1.h2s:
            for b in h2.blocks:
                out[id(b)] = [h1.title, h2.title, "", ""]
            for h3 in h2.h3s:
                for b in h3.blocks:
                    out[id(b)] = [h1.title, h2.title, h3.title, ""]
                for h4 in h3.h4s:
                    for b in h4.blocks:
                        out[id(b)] = [h1.title, h2.title, h3.title, h4.title]
    return out


def project_note(n, blk: int = 0, sec: Optional[list] = None) -> dict:
    tp = n.todo_payload
    return {
        "line": n.line_no,
        "kind": NOTE_TYPE_CHAR[tp.status.name] if tp else "-",
        "prio": tp.priority if tp else "",
        "zid": n.zid or "",
        "cdate": n.create_date.isoformat(),
        "mdate": n.modify_date.isoformat(),
        "body": n.body,
        "tags": [[ty, x] for ty in ("areas", "contexts", "people", "projects") for x in getattr(n, ty)],
        "links": list(n.links),
        "props": [[k, v] for k, v in n.properties.items()],
        "sec": sec or ["", "", "", ""],
        "blk": blk,
    }


def project_page(page) -> list:
    """Notes of a compiled real Page, in Page.notes order, with block ordinal and section path."""
    blocks = _blocks_in_order(page)
    ordinal = {id(b): i + 1 for i, b in enumerate(blocks)}
    secs = _sec_paths(page)
    out = []
    for b in blocks:
        for n in b.notes:
            out.append(project_note(n, ordinal[id(b)], secs.get(id(b))))
    return out


def compile_record(env, rel: str, rid: str, page: dict, today: str, roundtrip: bool = False) -> dict:
    """Renders `page` into env, compiles it with the real compiler, returns the trace record.
    roundtrip: also record the text zorg emits for each note (Note.to_string) and the notes compiled from
    the page made of a title line, a blank line and those texts."""
    env.write(rel, render_page(page))
    rec = {"id": rid, "page": page, "today": today, "res": "ok", "notes": []}
    try:
        pg = env.compile(rel)
        if pg.has_errors:
            rec["res"] = "errors"
        rec["notes"] = project_page(pg)
        if roundtrip:
            texts = [n.to_string() for blk in _blocks_in_order(pg) for n in blk.notes]
            for o, t in zip(rec["notes"], texts):
                o["text"] = t
            rec.update({"mode": "roundtrip", "res2": "ok", "notes2": [], "text2": "# T\n\n" + "".join(texts)})
            env.write("rt_" + rel, rec["text2"])
            try:
                pg2 = env.compile("rt_" + rel)
                rec["res2"] = "errors" if pg2.has_errors else "ok"
                rec["notes2"] = project_page(pg2)
            except Exception as e:  # noqa: BLE001
                rec["res2"] = "exc"
                rec["exc"] = repr(e)
    except Exception as e:  # noqa: BLE001 - an escaping exception is an observation (C08)
        rec["res"] = "exc"
        rec["exc"] = repr(e)
    return rec


# ----------------------------------------------------------------- vocabulary
def plain(t): return {"c": "plain", "txt": t}
def sdate(yy, mm, dd): return {"c": "sdate", "yy": yy, "mm": mm, "dd": dd, "txt": yy + mm + dd}
def ldate(y, mm, dd): return {"c": "ldate", "y": y, "mm": mm, "dd": dd, "txt": f"{y}-{mm}-{dd}"}
def zidw(yy, mm, dd, s): return {"c": "zid", "yy": yy, "mm": mm, "dd": dd, "suf": s, "txt": f"{yy}{mm}{dd}#{s}"}
def tag(ty, n): return {"c": "tag", "ty": ty, "name": n, "txt": TAGSYM[ty] + n}
def dtag(ty, n): return {"c": "dtag", "ty": ty, "name": n, "txt": TAGSYM[ty] + n}
def link(t): return {"c": "link", "target": t, "txt": f"[[{t}]]"}
def llink(i): return {"c": "llink", "id": i, "txt": f"[^{i}]"}
def glink(i): return {"c": "glink", "id": i, "txt": f"[#{i}]"}
def rlink(i): return {"c": "rlink", "id": i, "txt": f"[@{i}]"}
def zlink(z): return {"c": "zlink", "zid": z, "txt": f"[{z}]"}
def xlocal(): return {"c": "xlocal", "txt": "[^X]"}
def prop(k, v): return {"c": "prop", "key": k, "val": v, "txt": f"{k}::{v}"}
def uprop(k, u): return {"c": "uprop", "key": k, "url": u, "txt": f"{k}::{u}"}
def iprop(k, v): return {"c": "iprop", "key": k, "val": v, "txt": f"[{k}:: {v}]"}
def qprop(k, v): return {"c": "qprop", "key": k, "val": v, "txt": f"'{k}::{v}'"}
def url(u): return {"c": "url", "url": u, "txt": u}


def wrap(pre, w, post):
    w = dict(w)
    w["txt"] = pre + w["txt"] + post
    return w


def item(kind="-", prio="", gap=1, w=(), cont=()):
    return {"k": "item", "kind": kind, "prio": prio, "gap": gap, "w": list(w), "cont": list(cont)}


def sec(lvl, w): return {"k": "sec", "lvl": lvl, "w": list(w)}
def cmt(w): return {"k": "cmt", "w": list(w)}
BLANK = {"k": "blank"}
def text_line(ind, w): return {"k": "text", "ind": ind, "w": list(w)}
def bullet(lvl, w): return {"k": "bullet", "ind": 2 * lvl, "mark": "*-+"[lvl - 1], "w": list(w)}
def pbullet(lvl, key, w): return {"k": "pbullet", "ind": 2 * lvl, "mark": "*-+"[lvl - 1], "key": key, "w": list(w)}


# ------------------------------------------------------------ random pages
IDENTS = ["alpha", "Beta", "g4mma", "delta_x", "E5", "zeta9", "eta", "Theta_1", "iota", "kap", "lam", "mu2", "nu", "xi7",
          "call", "mom", "buy", "milk", "read", "paper", "draft", "v2", "foo", "bar", "baz", "qux", "Quux", "corge"]
INERT = ["o", "x", "P5", "P0", "1230", "0915", "2359", "42", "7", "ox", "xo", "Px", "p5", "done", "12345", "1234567"]
TAGN = ["work", "home", "zorg", "gtd", "deep_work", "a1", "Z9", "x1y2", "john", "mary_k", "p1", "errands"]
KEYS = ["due", "ID", "RID", "k", "prio_x", "est", "ref", "K"]
VALS = ["v", "5", "12", "high", "abc_1", "X9", "0", "n_a"]
PAGES = ["pg1", "projects", "sub/pg2", "day_log", "pg1#anc", "a_b"]
URLS = ["https://ex.com/a-b", "http://a.b/c", "https://example.org", "https://docs.site.net/p/q"]
SUF = "0123456789ABCDEFGHJKLMNPRTUVWXYZabcdefhkmnorstuvwxz"


class Gen:
    """Random abstract pages over the full vocabulary, inside the declared scope (PageWalk!ItemInScope)."""

    def __init__(self, rng: random.Random, *, dates_from=(2023, 2025)):
        self.r = rng
        self.in_item = False

    def ymd(self):
        r = self.r
        # mostly recent years; now and then the far ends of the two-digit range (00, 68 | 69, 99: all of them mean 20yy)
        y = r.randint(2021, 2026) if r.random() < 0.9 else r.choice([2000, 2001, 2068, 2069, 2070, 2099])
        return str(y), f"{r.randint(1, 12):02d}", f"{r.randint(1, 28):02d}"

    def a_zid(self, three=None):
        y, m, d = self.ymd()
        n = 3 if (three if three is not None else self.r.random() < 0.2) else 2
        return zidw(y[2:], m, d, "".join(self.r.choice(SUF) for _ in range(n)))

    def a_sdate(self):
        y, m, d = self.ymd()
        return sdate(y[2:], m, d)

    def a_ldate(self):
        return ldate(*self.ymd())

    def meta_word(self):
        r = self.r
        x = r.random()
        if x < 0.30:
            return tag(r.choice(list(TAGSYM)), r.choice(TAGN))
        if x < 0.36:
            return dtag(r.choice(list(TAGSYM)), r.choice(["1", "42", "2024", "007"]))
        if x < 0.50:
            return link(r.choice(PAGES))
        if x < 0.56:
            return llink(r.choice(IDENTS))
        if x < 0.60:
            return glink(r.choice(IDENTS))
        if x < 0.64:
            return rlink(r.choice(IDENTS))
        if x < 0.68:
            return zlink(self.a_zid()["txt"])
        if x < 0.70:
            return xlocal()
        if x < 0.82:
            return prop(r.choice(KEYS), r.choice(VALS + (["2024-03-01"] if self.in_item else [])))
        if x < 0.86:
            return uprop(r.choice(KEYS), r.choice(URLS))
        if x < 0.92:
            return iprop(r.choice(KEYS), " ".join(r.choice(VALS + IDENTS) for _ in range(r.randint(1, 3))))
        if x < 0.96:
            return qprop(r.choice(KEYS), r.choice(VALS))
        return url(r.choice(URLS))

    def inert_word(self):
        r = self.r
        x = r.random()
        if x < 0.55:
            return plain(r.choice(IDENTS))
        if x < 0.85:
            return plain(r.choice(INERT))
        if x < 0.90:
            return self.a_sdate()
        if x < 0.95:
            return self.a_ldate()
        return self.a_zid()

    def body_words(self, n, meta_p=0.3):
        out = []
        for _ in range(n):
            w = self.meta_word() if self.r.random() < meta_p else self.inert_word()
            if self.r.random() < 0.12:
                pre, post = self.r.choice([("(", ")"), ("", "."), ("", ","), ("(", ""), ("", ")")])
                w = wrap(pre, w, post)
            out.append(w)
        return out

    @staticmethod
    def ids(w):
        c = w["c"]
        if c in ("plain", "sdate", "ldate", "zid", "tag", "dtag", "link", "uprop"):
            return 1
        if c in ("prop", "qprop", "iprop"):
            return 2
        return 0

    def scrub(self, ws):
        """Keeps the sequence inside the declared scope: no zero-identifier word before a date/ZID look-alike."""
        out, zero = [], False
        for w in ws:
            if w["c"] in ("sdate", "ldate", "zid") and zero:
                w = plain(self.r.choice(IDENTS))
            if self.ids(w) == 0:
                zero = True
            out.append(w)
        return out

    def an_item(self, *, meta_p=0.3, want_zid=None):
        self.in_item = True
        try:
            return self._an_item(meta_p=meta_p, want_zid=want_zid)
        finally:
            self.in_item = False

    def _an_item(self, *, meta_p=0.3, want_zid=None):
        r = self.r
        kind = r.choice("-ox~<>") if r.random() < 0.6 else "-"
        prio = ""
        if kind != "-" and r.random() < 0.5:
            prio = f"P{r.randint(0, 9)}"
        pre = []
        x = r.random()
        has_zid = want_zid if want_zid is not None else x < 0.45
        if has_zid:
            if r.random() < 0.35:
                pre.append(self.a_sdate())
            pre.append(self.a_zid())
        elif x < 0.55:
            pre.append(self.a_ldate())
        elif x < 0.60:
            pre.append(self.a_sdate())
        words = pre + self.body_words(r.randint(1, 6), meta_p)
        cont = []
        if r.random() < 0.35:
            lvl = r.randint(1, 3)
            for _ in range(r.randint(1, 3)):
                y = r.random()
                if y < 0.35:
                    cont.append(text_line(r.choice([2, 4, 3]), self.body_words(r.randint(1, 4), meta_p)))
                elif y < 0.65:
                    # a plain bullet may sit on any level up to the one the property bullets use (a deeper one would be
                    # swallowed by the value of a property bullet before it)
                    # (only before the first property bullet, and starting with a plain word: the scan for property bullets
                    # takes a shallower bullet whose first word merely contains "::" for a property bullet of its level)
                    if any(cl["k"] == "pbullet" for cl in cont):
                        cont.append(bullet(lvl, self.body_words(r.randint(1, 4), meta_p)))
                    else:
                        l2 = r.randint(1, lvl)
                        ws = self.body_words(r.randint(1, 4), meta_p)
                        cont.append(bullet(l2, ([plain(r.choice(IDENTS))] if l2 < lvl else []) + ws))
                else:
                    cont.append(pbullet(lvl, r.choice(KEYS), [plain(r.choice(VALS + IDENTS)) for _ in range(r.randint(1, 3))]))
            # a property bullet is followed only by bullets of its own level (its value would swallow anything else)
            seen_p = False
            fixed = []
            for cl in cont:
                if seen_p and cl["k"] == "text":
                    continue
                if cl["k"] == "pbullet":
                    seen_p = True
                fixed.append(cl)
            cont = fixed
            # trailing blanks inside a body and whitespace-only lines are part of the body verbatim (never on / as the last line;
            # not next to property bullets, whose value would swallow them)
            if not any(cl["k"] == "pbullet" for cl in cont):
                for cl in cont[:-1]:
                    if r.random() < 0.25:
                        cl["trail"] = r.randint(1, 2)
                if len(cont) >= 2 and r.random() < 0.25:
                    cont.insert(r.randint(1, len(cont) - 1), {"k": "ws", "ind": r.randint(2, 4), "w": []})
            # bullets that are not property bullets must not look like one (first word ending in "::" cannot be built here)
        allw = self.scrub(words + [w for cl in cont for w in cl["w"]])
        k = len(words)
        words = allw[:k]
        j = k
        for cl in cont:
            n = len(cl["w"])
            cl["w"] = allw[j:j + n]
            j += n
        if len(words) == 1 and words[0]["c"] == "sdate" and cont:
            words.append(plain(r.choice(IDENTS)))
        if kind != "-" and not prio and words[0]["txt"] in ("P0", "P5"):      # would spell a priority
            words[0] = plain(r.choice(IDENTS))
        # first word of a plain bullet / text line must not be empty; first body word must be non-empty (always is)
        return item(kind, prio, r.choice([1, 1, 1, 2, 3]), words, cont)

    def header_words(self, meta_p=0.5, date_p=0.4):
        r = self.r
        ws = [plain(r.choice(IDENTS))] + [
            (self.meta_word() if r.random() < meta_p else plain(r.choice(IDENTS))) for _ in range(r.randint(0, 4))]
        ws = [w for w in ws if w["c"] not in ("sdate", "zid")]
        if r.random() < date_p:
            ws.insert(r.randint(1, len(ws)), self.a_ldate())
        return ws

    def a_page(self, n_lines=(8, 40), meta_p=0.3, want_zid=None):
        r = self.r
        title = self.header_words(0.6, 0.5)
        head = [self.header_words(0.6, 0.3) for _ in range(r.choice([0, 0, 1, 2]))]
        body = []
        open_ = [False] * 5
        n = r.randint(*n_lines)
        while len(body) < n:
            x = r.random()
            if x < 0.18:
                lv = r.choice([l for l in (1, 2, 3, 4) if l <= 2 or open_[l - 1]])
                for L in range(lv, 5):
                    open_[L] = False
                open_[lv] = True
                body.append(sec(lv, self.header_words(0.5, 0.35)))
                if r.random() < 0.5:
                    body.append(BLANK)
            elif x < 0.26 and body and body[-1]["k"] != "cmt":
                body.append(cmt(self.header_words(0.7, 0.5)))
            elif x < 0.38 and body and body[-1]["k"] in ("item", "cmt"):
                body.append(BLANK)
            else:
                body.append(self.an_item(meta_p=meta_p, want_zid=want_zid))
        return {"title": title, "head": head, "body": body}
