"""Thin driver around TLC / SANY: runs a module+config from /verif/spec in a scratch
metadir, parses the statistics TLC prints, per-action coverage and invariant
failures.  No TLA+ knowledge lives here."""
from __future__ import annotations

import os
import re
import shutil
import subprocess
import tempfile
import time
from dataclasses import dataclass, field
from pathlib import Path
from typing import Optional

VERIF = Path(__file__).resolve().parent.parent
SPEC_DIR = VERIF / "spec"
JAR = "/opt/veriftools/tla/tla2tools.jar:/opt/veriftools/tla/CommunityModules-deps.jar"


def scratch_root() -> Path:
    """Scratch root outside /repo and /verif, shared with forked workers; removed by its creator."""
    cur = os.environ.get("ZV_SCRATCH")
    if cur and Path(cur).is_dir():
        return Path(cur)
    base = os.environ.get("VERIF_SCRATCH") or os.environ.get("TMPDIR") or "/tmp"
    root = Path(base) / f"zorg-verif-{os.getpid()}"
    root.mkdir(parents=True, exist_ok=True)
    os.environ["ZV_SCRATCH"] = str(root)
    os.environ["ZV_SCRATCH_OWNER"] = str(os.getpid())
    return root


def cleanup_scratch() -> None:
    cur = os.environ.get("ZV_SCRATCH")
    if cur and os.environ.get("ZV_SCRATCH_OWNER") == str(os.getpid()):
        shutil.rmtree(cur, ignore_errors=True)
        os.environ.pop("ZV_SCRATCH", None)


@dataclass
class TlcResult:
    ok: bool                      # TLC finished without reporting any error
    rc: int
    generated: int = 0            # "N states generated"
    distinct: int = 0             # "M distinct states found"
    depth: int = 0
    violated: Optional[str] = None   # name of the invariant / property violated
    error: Optional[str] = None      # first error text (machinery failures)
    output: str = ""
    wall_s: float = 0.0
    coverage: dict = field(default_factory=dict)   # action name -> (distinct, total)
    printed: list = field(default_factory=list)    # raw PrintT lines (unparsed text)
    workdir: Optional[Path] = None

    def never_taken(self) -> list[str]:
        return sorted(a for a, (d, t) in self.coverage.items() if t == 0)


_RE_STATS = re.compile(r"(\d+) states generated, (\d+) distinct states found")
_RE_DEPTH = re.compile(r"The depth of the complete state graph search is (\d+)")
_RE_INV = re.compile(r"Invariant (\S+) is violated")
_RE_PROP = re.compile(r"(?:Action|Temporal) propert(?:y|ies) (\S+)? ?(?:is|were) violated")
_RE_COV = re.compile(r"^<(\w+) line \d+, col \d+ to line \d+, col \d+ of module (\w+)(?: \([\d ]+\))?>: (\d+):(\d+)", re.M)


def run_tlc(module: str, cfg: Optional[str] = None, *, workers: int | str = "auto",
            simulate: Optional[str] = None, depth: Optional[int] = None, seed: Optional[int] = None,
            dump_dot: Optional[Path] = None, dump: Optional[Path] = None, coverage: bool = False,
            env: Optional[dict] = None, timeout: int = 3600, deadlock: bool = False,
            extra: Optional[list[str]] = None, java_opts: Optional[list[str]] = None,
            spec_dir: Path = SPEC_DIR, keep: bool = False, dfs_queue: bool = False,
            cont: bool = False) -> TlcResult:
    """Runs TLC on spec_dir/<module>.tla with spec_dir/<cfg> (default <module>.cfg)."""
    root = scratch_root()
    work = Path(tempfile.mkdtemp(prefix=f"tlc-{module}-", dir=root))
    meta = work / "meta"
    cfgp = Path(cfg) if cfg and os.path.isabs(str(cfg)) else spec_dir / (cfg or f"{module}.cfg")
    cmd = ["java", "-XX:+UseParallelGC", "-Xmx8g"]
    if dfs_queue:
        cmd.append("-Dtlc2.tool.queue.IStateQueue=StateDeque")
    if java_opts:
        cmd += java_opts
    cmd += ["-cp", JAR, "tlc2.TLC", "-noGenerateSpecTE", "-metadir", str(meta),
            "-config", str(cfgp), "-workers", str(workers)]
    if not deadlock:
        cmd.append("-deadlock")
    if cont:
        cmd.append("-continue")
    if coverage:
        cmd += ["-coverage", "1"]
    if simulate is not None:
        cmd += ["-simulate", simulate] if simulate else ["-simulate"]
    if depth is not None:
        cmd += ["-depth", str(depth)]
    if seed is not None:
        cmd += ["-seed", str(seed)]
    if dump_dot is not None:
        cmd += ["-dump", "dot,actionlabels", str(dump_dot)]
    if dump is not None:
        cmd += ["-dump", str(dump)]
    if extra:
        cmd += extra
    cmd.append(str(spec_dir / f"{module}.tla"))
    e = dict(os.environ)
    e.pop("JAVA_TOOL_OPTIONS", None)
    if env:
        e.update({k: str(v) for k, v in env.items()})
    t0 = time.time()
    try:
        p = subprocess.run(cmd, cwd=str(work), env=e, capture_output=True, text=True, timeout=timeout)
        out, rc = p.stdout + p.stderr, p.returncode
    except subprocess.TimeoutExpired as ex:
        out = (ex.stdout or b"").decode(errors="replace") if isinstance(ex.stdout, bytes) else (ex.stdout or "")
        out += "\nTLC-TIMEOUT"
        rc = 124
    wall = time.time() - t0
    res = TlcResult(ok=False, rc=rc, output=out, wall_s=wall, workdir=work)
    ms = _RE_STATS.findall(out)
    if ms:
        res.generated, res.distinct = int(ms[-1][0]), int(ms[-1][1])
    m = _RE_DEPTH.search(out)
    if m:
        res.depth = int(m.group(1))
    m = _RE_INV.search(out)
    if m:
        res.violated = m.group(1)
    else:
        m = re.search(r"Action property (\S+) is violated", out) or re.search(
            r"Temporal properties were violated", out)
        if m:
            res.violated = m.group(1) if m.groups() and m.group(1) else "temporal"
    for a, mod, d, t in _RE_COV.findall(out):
        prev = res.coverage.get(a, (0, 0))
        res.coverage[a] = (max(prev[0], int(d)), max(prev[1], int(t)))
    if rc == 0 and "Model checking completed. No error has been found." in out:
        res.ok = True
    elif rc == 0 and simulate is not None:
        res.ok = res.violated is None and "Error:" not in out
    else:
        em = re.search(r"Error: (.*)", out)
        res.error = em.group(1).strip() if em else (None if res.violated else f"rc={rc}")
    if not keep:
        shutil.rmtree(meta, ignore_errors=True)
    return res


def sany(module: str, spec_dir: Path = SPEC_DIR) -> tuple[bool, str]:
    p = subprocess.run(["java", "-cp", JAR, "tla2sany.SANY", str(spec_dir / f"{module}.tla")],
                       cwd=str(spec_dir), capture_output=True, text=True)
    out = p.stdout + p.stderr
    ok = p.returncode == 0 and "Semantic errors" not in out and "***Parse Error***" not in out \
        and "Fatal errors" not in out and "Could not parse" not in out
    return ok, out
