"""./check <ID> <quick|thorough> [--replay PATH]

Exit 0: property held on everything explored (KNOWN-FINDING lines allowed).
Exit 1: at least one `VIOLATION property=<id> replay=<path>` line was printed.
Exit 2: machinery failure (TLC error on the reference spec, glue self-check, vacuity)."""
from __future__ import annotations

import importlib
import json
import os
import sys
import time
import traceback
from pathlib import Path

VERIF = Path(__file__).resolve().parent.parent
sys.path.insert(0, str(VERIF))

from harness import tlc as _tlc  # noqa: E402


def _now() -> float:
    """Wall clock that the frozen calendar (freezegun) cannot touch."""
    try:
        import freezegun.api as fa
        return fa.real_perf_counter()
    except Exception:  # noqa: BLE001
        return time.perf_counter()


class MachineryError(Exception):
    pass


class Ctx:
    def __init__(self, pid: str, tier: str, seed: int, level: str):
        self.pid, self.tier, self.seed, self.level = pid, tier, seed, level
        self.t0 = _now()
        self.coverage: dict = {"samples": []}
        self.assumptions: list[str] = []
        self.violations: list[dict] = []
        self.known_hits: dict[str, int] = {}
        self.notes: list[str] = []
        kf = VERIF / "known_findings.json"
        self.known = [k for k in (json.loads(kf.read_text()) if kf.exists() else [])
                      if k.get("property") == pid and k.get("status") == "known"]
        self.quick = tier == "quick"

    # -- coverage bookkeeping
    def add(self, key: str, n: int = 1) -> None:
        self.coverage[key] = self.coverage.get(key, 0) + n

    def set(self, key: str, v) -> None:
        self.coverage[key] = v

    def sample(self, s, limit: int = 6) -> None:
        if len(self.coverage["samples"]) < limit:
            self.coverage["samples"].append(s)

    def stage(self, name: str) -> None:
        """Records the wall time since the previous stage mark (evidence: coverage.stage_s)."""
        now = _now()
        last = getattr(self, "_stage_t", self.t0)
        self.coverage.setdefault("stage_s", {})[name] = round(now - last, 1)
        self._stage_t = now

    def assume(self, s: str) -> None:
        if s not in self.assumptions:
            self.assumptions.append(s)

    def tlc_stats(self, res, label: str) -> None:
        """Accumulates TLC statistics of one run into the evidence."""
        self.add("states", res.distinct)
        self.add("transitions", res.generated)
        runs = self.coverage.setdefault("tlc_runs", [])
        runs.append({"config": label, "distinct": res.distinct, "generated": res.generated,
                     "depth": res.depth, "wall_s": round(res.wall_s, 1),
                     "actions": {a: t for a, (d, t) in sorted(res.coverage.items())}})

    # -- verdicts
    def violation(self, what: str, case: dict, key: str | None = None) -> None:
        """Reports a violation unless `key` names a committed known finding."""
        if key is not None:
            for k in self.known:
                if k["key"] == key:
                    self.known_hits[key] = self.known_hits.get(key, 0) + 1
                    return
        if len(self.violations) >= 25:
            self.violations.append({"what": what, "path": None})
            return
        d = Path(os.environ.get("VERIF_REPLAY_DIR", VERIF / "replays")) / self.pid
        d.mkdir(parents=True, exist_ok=True)
        p = d / f"{self.tier}-{len(self.violations):03d}.json"
        p.write_text(json.dumps({"property": self.pid, "what": what, "key": key, "case": case},
                                indent=1, default=str))
        self.violations.append({"what": what, "path": str(p)})

    def machinery(self, msg: str) -> None:
        raise MachineryError(msg)

    def require_tlc_ok(self, res, label: str) -> None:
        """A TLC failure on the reference specification alone is a machinery failure."""
        if not res.ok:
            tail = "\n".join(res.output.splitlines()[-40:])
            raise MachineryError(f"TLC run {label} failed: violated={res.violated} error={res.error}\n{tail}")
        dead = [a for a in res.never_taken()]
        if dead:
            raise MachineryError(f"TLC run {label}: vacuity - actions never taken: {dead}")

    # -- output
    def finish(self) -> int:
        cov = self.coverage
        ev = {
            "property_id": self.pid, "tier": self.tier, "seed": self.seed, "level": self.level,
            "coverage": cov, "assumptions": self.assumptions,
            "wall_s": round(_now() - self.t0, 2),
            "violations": len(self.violations),
            "known_findings_hit": self.known_hits, "notes": self.notes,
        }
        evd = Path(os.environ.get("VERIF_EVIDENCE_DIR", VERIF / "evidence"))     # (experiments on scratch trees write elsewhere)
        evd.mkdir(parents=True, exist_ok=True)
        (evd / f"{self.pid}.json").write_text(json.dumps(ev, indent=1, default=str) + "\n")
        for k in self.known:
            if self.known_hits.get(k["key"]):
                print(f"KNOWN-FINDING: property={self.pid} {k['what']} [{k['key']}; {self.known_hits[k['key']]} case(s)]")
        for v in self.violations:
            if v["path"]:
                print(f"VIOLATION property={self.pid} replay={v['path']}")
                print(f"  {v['what']}")
        return 1 if self.violations else 0


def main(argv: list[str]) -> int:
    if len(argv) < 2:
        print(__doc__)
        return 2
    pid = argv[1].upper()
    tier = argv[2] if len(argv) > 2 and not argv[2].startswith("--") else os.environ.get("VERIF_TIER", "quick")
    replay = None
    if "--replay" in argv:
        replay = argv[argv.index("--replay") + 1]
    seed = int(os.environ.get("VERIF_SEED", "0") or 0)
    os.environ.setdefault("PYTHONHASHSEED", "0")
    mod = importlib.import_module(f"harness.props.{pid.lower()}")
    ctx = Ctx(pid, tier, seed, getattr(mod, "LEVEL", "model_checking"))
    rc = 2
    try:
        if replay:
            rc = mod.replay(ctx, json.loads(Path(replay).read_text()))
        else:
            mod.run(ctx)
            rc = ctx.finish()
    except MachineryError as e:
        print(f"MACHINERY-FAILURE property={pid}: {e}", file=sys.stderr)
        rc = 2
    except Exception:  # noqa: BLE001
        traceback.print_exc()
        print(f"MACHINERY-FAILURE property={pid}: unexpected exception", file=sys.stderr)
        rc = 2
    finally:
        _tlc.cleanup_scratch()
    return rc


if __name__ == "__main__":
    sys.exit(main(sys.argv))
