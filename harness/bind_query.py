"""Glue between the real query objects / index rows and spec/Filter.tla values.  Dumb copying only:
text becomes a list of code points, dates become YYYYMMDD integers, enums become their names."""
from __future__ import annotations

import datetime as dt
import json
import re
from pathlib import Path

from . import bind_page as bp
from . import tlc


def T(s: str) -> list:
    return [ord(c) for c in s]


def ymd(d) -> int:
    if isinstance(d, str):
        d = dt.date.fromisoformat(d)
    return d.year * 10000 + d.month * 100 + d.day


def _dval(v: str) -> int:
    try:
        return ymd(v) if re.fullmatch(r"\d{4}-\d\d-\d\d", v) else 0
    except ValueError:
        return 0


def universe(rows: list) -> list:
    """Raw index rows (zenv.read_db_notes) -> Filter.tla notes."""
    out = []
    for r in rows:
        kind = bp.NOTE_TYPE_CHAR[r["todo_status"]] if r["todo_status"] else "-"
        out.append({
            "zid": T(r["zid"] or ""), "page": T(r["page_path"]), "kind": kind,
            "prio": (r["todo_priority"] or "") if kind != "-" else "",
            "tags": [[ty, x] for ty in ("areas", "contexts", "people", "projects") for x in r[ty]],
            "cd": ymd(r["create_date"]), "md": ymd(r["modify_date"]),
            "props": [{"key": T(k), "sval": T(v), "ival": int(v) if v.isdigit() else 0, "dval": _dval(v)}
                      for k, v in r["properties"].items()],
            "body": T(r["body"]), "links": [T(x) for x in r["links"]]})
    return out


_KIND = {"BASIC": "-", "OPEN_TODO": "o", "CLOSED_TODO": "x", "CANCELED_TODO": "~", "BLOCKED_TODO": "<", "PARENT_TODO": ">"}


def proj_or(orf) -> list:
    return [] if orf is None else [proj_and(a) for a in orf.and_filters]


def proj_and(a) -> dict:
    tags = []
    for ty in ("areas", "contexts", "people", "projects"):
        for name in sorted(getattr(a, ty)):
            tags.append({"ty": ty, "name": name[1:] if name.startswith("-") else name, "neg": name.startswith("-")})
    props = []
    for p in sorted(a.property_filters, key=repr):
        vt = "ANY" if p.op.name == "EXISTS" else p.value_type.name
        ival = 0
        if p.op.name != "EXISTS":
            if vt == "INTEGER":
                ival = int(p.value)
            elif vt == "DATE":
                from zorg.shared import dates as zdt      # only absolute dates are generated for property filters
                ival = ymd(zdt.from_date_spec(p.value))
        props.append({"key": T(p.key), "op": p.op.name, "vt": vt, "ival": ival, "sval": T(p.value), "neg": p.negated})
    return {
        "kinds": sorted(_KIND[t.name] for t in a.allowed_note_types),
        "prios": sorted(a.priorities),
        "tags": tags,
        "cr": [[ymd(r.start), ymd(r.end) if r.end else 0] for r in sorted(a.create_date_ranges, key=repr)],
        "mr": [[ymd(r.start), ymd(r.end) if r.end else 0] for r in sorted(a.modify_date_ranges, key=repr)],
        "props": props,
        "texts": [{"v": T(d.value), "cs": "yes" if d.case_sensitive else "smart", "neg": d.op.name == "NOT_CONTAINS"}
                  for d in sorted(a.desc_filters, key=repr)],
        "files": [{"glob": T(f.path_glob), "neg": f.negated} for f in sorted(a.file_filters, key=repr)],
        "links": [{"page": T(l.link), "neg": l.negated} for l in sorted(a.link_filters, key=repr)],
        "ors": [proj_or(o) for o in a.or_filters],
    }


def run_where(env, where) -> list:
    """The real answer: ZIDs returned by SQLRepo.get_notes_by_query for a compiled WHERE structure."""
    from zorg.storage.sql import SQLSession
    from . import zenv
    zenv.reset_process_state()
    try:
        with SQLSession(env.zdir, f"sqlite:///{env.db_path}") as session:
            return [n.zid for n in session.repo.get_notes_by_query(where)]
    finally:
        zenv.reset_process_state()


def tlc_filter_verdicts(universes: list, records: list, ctx, tag: str, batch: int = 6000) -> dict:
    """records: [{id, u, where, obs}] -> {id: (missing, extra)} as decided by TLC (Trace_Filter)."""
    if len(records) > batch:
        out = {}
        for i in range(0, len(records), batch):
            out.update(tlc_filter_verdicts(universes, records[i:i + batch], ctx, f"{tag}-{i // batch}", batch))
        return out
    root = tlc.scratch_root()
    fu, fr = root / f"univ-{tag}.ndjson", root / f"queries-{tag}.ndjson"
    fu.write_text("".join(json.dumps({"notes": u}) + "\n" for u in universes))
    fr.write_text("".join(json.dumps({"id": r["id"], "u": r["u"], "where": r["where"], "obs": [T(z or "") for z in r["obs"]]}) + "\n"
                          for r in records))
    res = tlc.run_tlc("Trace_Filter", env={"ZV_UNIV": str(fu), "ZV_TRACE": str(fr)})
    if not res.ok:
        ctx.machinery(f"Trace_Filter failed ({tag}): {res.error}\n{res.output[-2500:]}")
    out = {}
    for line in res.output.splitlines():
        if line.startswith('"[\\"RES\\"'):
            t = json.loads(json.loads(line))
            out[t[1]] = (["".join(map(chr, z)) for z in t[2]], ["".join(map(chr, z)) for z in t[3]])
    missing = [r["id"] for r in records if r["id"] not in out]
    if missing:
        ctx.machinery(f"Trace_Filter gave no verdict for {len(missing)} queries, e.g. {missing[:3]}")
    ctx.add("states", res.distinct)
    ctx.add("transitions", res.generated)
    return out


# ------------------------------------------------------------------ C04: the compiled structure as data
def proj_select(s) -> dict:
    name = type(s).__name__
    if name == "SelectAggregation":
        return {"t": "COUNT", "of": proj_select(s.select_type)}
    if name == "SelectPropertyValues":
        return {"t": "PROPVALS", "key": s.key}
    return {"t": s.name}


def proj_and_raw(a) -> dict:
    d = proj_and(a)
    out = {"kinds": d["kinds"], "prios": d["prios"], "tags": d["tags"], "cr": d["cr"], "mr": d["mr"],
           "props": [{"key": p.key, "op": p.op.name, "value": p.value, "vt": "ANY" if p.op.name == "EXISTS" else p.value_type.name,
                      "neg": p.negated} for p in sorted(a.property_filters, key=repr)]}
    for k in ("texts", "files", "links", "ors"):
        if d[k]:
            out[k] = d[k]
    return out


def proj_query_raw(q) -> dict:
    return {"select": proj_select(q.select), "order": [o.name for o in q.order_by], "group": [g.name for g in q.group_by],
            "where": [] if q.where is None else [proj_and_raw(a) for a in q.where.and_filters]}


def canon(v):
    """Order-insensitive canonical form of a structure: every list that denotes a set is sorted."""
    if isinstance(v, dict):
        return {k: (x if k in ("order", "group") else sorted({json.dumps(p) for p in x}) if k in ("cr", "mr")
                    else _canon_set(x) if isinstance(x, list) else canon(x))
                for k, x in sorted(v.items())}
    if isinstance(v, list):
        return [canon(x) for x in v]
    return v


def _canon_set(lst):
    items = [canon(x) for x in lst]
    if items and isinstance(items[0], int):       # code points of a text: order matters
        return items
    uniq = {json.dumps(x, sort_keys=True): x for x in items}        # the compiler keeps atoms of one group in sets
    return [uniq[k] for k in sorted(uniq)]
