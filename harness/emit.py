"""C12, second half: the text zorg emits *through the index* - in query results (`swog.execute`) and in saved-query
pages (`zorg edit q.zoq` refreshes the page before the editor starts).

Input: round-trip records of pages whose items all carry distinct ZIDs (so `db create` leaves the page alone).  For
those, TLC (Trace_Page!VerdictRT) has already decided that each Note.to_string() text is PageSem!RenderNote of the
expected note and that the page made of those texts denotes the selected notes.  Here the remaining link is closed
with byte comparisons: the ungrouped selection of all notes is exactly those texts (each once, nothing else), the
refreshed .zoq page is header + stats line + that selection, a second refresh changes nothing but the time stamp,
and the .zoq page compiled by the real compiler gives the notes TLC approved (matched by ZID)."""
from __future__ import annotations

import re
from pathlib import Path
from unittest.mock import MagicMock, patch

from . import bind_page as bp
from . import par, zenv

QUERY = "S note O none"
STATS = "# SAVED QUERY GENERATED ON "
FIELDS = ("kind", "zid", "body", "tags", "links", "props", "cdate", "mdate")


def eligible(rec: dict) -> bool:
    if rec.get("mode") != "roundtrip" or rec["res"] != "ok" or rec.get("res2") != "ok" or not rec["notes"]:
        return False
    zids = [n["zid"] for n in rec["notes"]]
    return all(zids) and len(set(zids)) == len(zids) and len(rec["notes"]) == len(rec["notes2"])


def _match_entries(out: str, texts: list) -> str | None:
    """out must be the texts (each once, in any order) joined by newlines.  -> description of the first mismatch."""
    lines = out.split("\n") if out else []
    pool = [t.split("\n") for t in texts]
    used = [False] * len(pool)
    pos = 0
    while pos < len(lines):
        if lines[pos] == "":             # blank lines between two notes are harmless (the page stays valid)
            pos += 1
            continue
        for i, tl in enumerate(pool):
            if not used[i] and lines[pos:pos + len(tl)] == tl:
                used[i] = True
                pos += len(tl)
                break
        else:
            return f"line {pos + 1} of the result starts no emitted note: {lines[pos]!r}"
    if not all(used):
        i = used.index(False)
        return f"note not in the result: {texts[i]!r}"
    return None


def _one(rec: dict) -> dict:
    zenv.set_day(rec["today"])
    env = zenv.ZEnv()
    res = {"id": rec["id"], "problems": [], "skipped": None}
    try:
        text = bp.render_page(rec["page"])
        env.write("p.zo", text)
        r = env.db_create()
        if not r.ok:
            res["skipped"] = f"db create failed: {r!r}"           # C05 / C08 territory
            return res
        if env.read("p.zo") != text:
            res["skipped"] = "db create rewrote the page"
            return res
        from zorg.service import swog
        db_url = "sqlite:///" + str(env.db_path)
        zenv.reset_process_state()
        out = None
        try:
            out = swog.execute(env.zdir, db_url, QUERY)
        except Exception as e:  # noqa: BLE001 - an escaping exception is an observation
            res["problems"].append(("query", f"swog.execute({QUERY!r}) raised {e!r}", ""))
        finally:
            zenv.reset_process_state()
        texts = [n["text"].rstrip() for n in rec["notes"]]
        bad = _match_entries(out, texts) if out is not None else None
        if bad:
            res["problems"].append(("query", bad, out))
        # saved-query page
        env.write("q.zoq", f"# {QUERY}\n# keep me\n")
        with patch("vimala._vim.proctor.safe_popen", lambda *a, **k: MagicMock()):
            r1 = env.main("edit", "q.zoq")
        z1 = env.read("q.zoq")
        m = re.fullmatch(re.escape(f"# {QUERY}\n# keep me\n#\n{STATS}") + r"[^\n]*\n\n(.*)", z1, re.S)
        if not r1.ok:
            res["problems"].append(("zoq", f"zorg edit q.zoq failed: {r1!r}", z1))
        elif not m:
            res["problems"].append(("zoq", "refreshed page is not header + '#' + stats line + blank + results", z1))
        else:
            bad = _match_entries(m.group(1), texts)
            if bad:
                res["problems"].append(("zoq", bad, z1))
            with patch("vimala._vim.proctor.safe_popen", lambda *a, **k: MagicMock()):
                env.main("edit", "q.zoq")
            z2 = env.read("q.zoq")
            if z2 != z1:
                res["problems"].append(("zoq", "a second refresh changed the saved-query page", z2))
            # the page as the compiler reads it
            try:
                if m.group(1) and not z1.endswith("\n"):
                    # recorded finding: the page is written without a final newline, so its last item is not terminated;
                    # everything else is judged on the page with the newline added
                    res["problems"].append(("zoq-newline", "the refreshed saved-query page has no final newline: the compiler reports a "
                                                           "syntax error and does not see its last note", z1))
                    env.write("q.zoq", z1 + "\n")
                pg = env.compile("q.zoq")
                got = {n["zid"]: n for n in bp.project_page(pg)}
                if pg.has_errors:
                    res["problems"].append(("zoq-compile", "saved-query page has syntax errors", z1))
                for want in rec["notes2"]:
                    g = got.pop(want["zid"], None)
                    if g is None:
                        res["problems"].append(("zoq-compile", f"note {want['zid']} missing from the compiled saved-query page", z1))
                        break
                    fields = FIELDS + (("prio",) if want["kind"] not in ("x", "~") else ())
                    diff = [f for f in fields if (sorted(map(tuple, g[f])) if isinstance(g[f], list) else g[f])
                            != (sorted(map(tuple, want[f])) if isinstance(want[f], list) else want[f])]
                    if diff:
                        res["problems"].append(("zoq-compile", f"note {want['zid']}: {diff[0]} is {g[diff[0]]!r}, the emitted note has "
                                                               f"{want[diff[0]]!r}", z1))
                        break
                else:
                    if got:
                        res["problems"].append(("zoq-compile", f"extra notes in the compiled saved-query page: {sorted(got)}", z1))
            except Exception as e:  # noqa: BLE001
                res["problems"].append(("zoq-compile", f"compiling the saved-query page raised {e!r}", z1))
        return res
    finally:
        env.cleanup()


def through_index(recs: list) -> list:
    el = [r for r in recs if eligible(r)]
    # the parser's prediction caches are cold in a fresh process: fill them here so that forked workers inherit them
    head = [_one(r) for r in el[:3]]
    return head + par.pmap(_one, el[3:])


# ------------------------------------------------------------------ refresh of saved-query pages (FileOps!ZoqRefresh)
def _zoq_chunk(cases: list) -> list:
    import datetime as dt
    from zorg.service import swog
    zenv.set_day("2024-06-01")
    env = zenv.ZEnv()
    out = []
    try:
        env.write("p.zo", "# P\n\n- 240101#00 first +t\no P1 240101#01 second\n  * bullet\n")
        r = env.db_create()
        if not r.ok:
            return [{"case": None, "problem": f"setup: {r!r}"}]
        db_url = "sqlite:///" + str(env.db_path)
        results = "- 240101#00 first +t\no P1 240101#01 second\n  * bullet"
        stats = "# SAVED QUERY GENERATED ON " + dt.datetime.now().strftime("%Y-%m-%d AT %H:%M:%S") + "."
        for i, c in cases:
            text = "\n".join(l["txt"] for l in c["file"]) + ("\n" if i % 2 == 0 else "")
            env.write("q.zoq", text)

            def refresh():
                zenv.reset_process_state()
                try:
                    swog.refresh_zoq_file(env.zdir, db_url, env.path("q.zoq"))
                finally:
                    zenv.reset_process_state()
                return env.read("q.zoq")

            def want(lines):
                return "\n".join(l["txt"] for l in lines).replace("<RESULTS>", results)

            def got(z):          # what the fresh stats line says after its fixed prefix is not part of any property
                return re.sub(r"(?m)^" + re.escape(STATS) + r"(?!2001-02-03 AT 04:05:06\.$)[^\n]*$", "<STATS>", z.rstrip("\n"))
            try:
                z1 = refresh()
                z2 = refresh()
            except Exception as e:  # noqa: BLE001
                out.append({"case": c, "text": text, "problem": f"refresh raised {e!r}"})
                continue
            prob = None
            if got(z1) != want(c["once"]) or len(z1) - len(z1.rstrip("\n")) > 1:
                prob = ("once", z1, want(c["once"]))
            elif got(z2) != want(c["twice"]) or len(z2) - len(z2.rstrip("\n")) > 1:
                prob = ("twice", z2, want(c["twice"]))
            out.append({"case": c, "text": text, "problem": prob})
    finally:
        env.cleanup()
    return out


def zoq_refresh(cases: list) -> list:
    idx = list(enumerate(cases))
    n = max(1, len(idx) // (par.NPROC * 2))
    chunks = [idx[i:i + n] for i in range(0, len(idx), n)]
    return [r for part in par.pmap(_zoq_chunk, chunks, chunk=1) for r in part]
