"""Observation and fault injection below zorg, inside the harness process.

External effects of zorg on a notes directory are intercepted at the
interfaces any implementation has to use:

  * file writes    : io.open / builtins.open in a writing mode (pathlib goes through io.open);
                     the effect happens when the file object is closed
  * deletions      : os.unlink / os.remove
  * renames        : os.rename / os.replace
  * database commit: SQLAlchemy Engine "commit" event

Every effect gets an index (0-based) in program order and is appended to
`effects` after it happened.  The interposer can instead raise SimulatedCrash
*before* effect k (the process died between effect k-1 and k), *after* effect k,
or perform a torn version of write k (a strict prefix reaches the disk) and
then raise.  SimulatedCrash derives from BaseException because zorg's message
bus swallows Exception in event handlers."""
from __future__ import annotations

import builtins
import io
import os
from pathlib import Path
from typing import Callable, Optional


class SimulatedCrash(BaseException):
    pass


_REAL_IO_OPEN = io.open
_REAL_BUILTIN_OPEN = builtins.open
_REAL_UNLINK = os.unlink
_REAL_REMOVE = os.remove
_REAL_RENAME = os.rename
_REAL_REPLACE = os.replace


class _TextBuf(io.StringIO):
    def __init__(self, ip, path, mode, kw, initial=""):
        super().__init__()
        self._ip, self._path, self._mode, self._kw = ip, path, mode, kw
        self._done = False
        if initial:
            self.write(initial)

    def close(self):
        if not self._done:
            self._done = True
            data = self.getvalue()
            try:
                self._ip._do_write(self._path, data, self._mode, self._kw)
            finally:
                super().close()
        else:
            super().close()

    def __exit__(self, et, ev, tb):
        if et is not None and issubclass(et, SimulatedCrash):
            self._done = True
        self.close()
        return False


class _ByteBuf(io.BytesIO):
    def __init__(self, ip, path, mode, kw, initial=b""):
        super().__init__()
        self._ip, self._path, self._mode, self._kw = ip, path, mode, kw
        self._done = False
        if initial:
            self.write(initial)

    def close(self):
        if not self._done:
            self._done = True
            data = self.getvalue()
            try:
                self._ip._do_write(self._path, data, self._mode, self._kw)
            finally:
                super().close()
        else:
            super().close()

    def __exit__(self, et, ev, tb):
        if et is not None and issubclass(et, SimulatedCrash):
            self._done = True
        self.close()
        return False


class Interposer:
    def __init__(self, root: Path, *, crash_before: Optional[int] = None, crash_after: Optional[int] = None,
                 torn_at: Optional[int] = None, torn_keep: float = 0.5,
                 crash_after_match: Optional[Callable[[dict], bool]] = None,
                 on_effect: Optional[Callable[[dict], None]] = None):
        self.root = Path(root).resolve()
        self.crash_before, self.crash_after = crash_before, crash_after
        self.torn_at, self.torn_keep = torn_at, torn_keep
        self.crash_after_match = crash_after_match
        self.on_effect = on_effect
        self.effects: list[dict] = []
        self.crashed = False
        self._active = False

    # ------------------------------------------------------------------ core
    def _rel(self, p) -> Optional[str]:
        try:
            if isinstance(p, int):
                return None
            q = Path(os.fspath(p))
            if not q.is_absolute():
                q = Path.cwd() / q
            q = Path(os.path.normpath(str(q)))
            return str(q.relative_to(self.root))
        except Exception:
            return None

    def _before(self, kind: str, target: str) -> int:
        k = len(self.effects)
        if self.crash_before is not None and k == self.crash_before:
            self.crashed = True
            raise SimulatedCrash(f"before effect {k}: {kind} {target}")
        return k

    def _after(self, eff: dict) -> None:
        self.effects.append(eff)
        if self.on_effect:
            self.on_effect(eff)
        if (self.crash_after is not None and eff["i"] == self.crash_after) or (
                self.crash_after_match is not None and self.crash_after_match(eff)):
            self.crashed = True
            raise SimulatedCrash(f"after effect {eff['i']}: {eff['kind']} {eff['target']}")

    def _do_write(self, path: str, data, mode: str, kw: dict) -> None:
        rel = self._rel(path)
        k = self._before("write", rel)
        real_mode = ("w" + ("b" if "b" in mode else ""))
        if self.torn_at is not None and k == self.torn_at:
            n = int(len(data) * self.torn_keep)
            if n >= len(data):
                n = max(0, len(data) - 1)
            with _REAL_IO_OPEN(path, real_mode, **kw) as f:
                f.write(data[:n])
            self.effects.append({"i": k, "kind": "write", "target": rel, "size": n, "torn": True})
            self.crashed = True
            raise SimulatedCrash(f"torn write {k}: {rel} ({n}/{len(data)})")
        with _REAL_IO_OPEN(path, real_mode, **kw) as f:
            f.write(data)
        self._after({"i": k, "kind": "write", "target": rel, "size": len(data)})

    def _open(self, real):
        def opener(file, mode="r", buffering=-1, encoding=None, errors=None, newline=None, closefd=True, opener=None):
            if self._active and isinstance(mode, str) and any(c in mode for c in "wax") and "+" not in mode:
                rel = self._rel(file)
                if rel is not None:
                    kw = {}
                    if "b" not in mode:
                        kw = {"encoding": encoding, "errors": errors, "newline": newline}
                    path = os.fspath(file)
                    initial = None
                    if "a" in mode and os.path.exists(path):
                        with _REAL_IO_OPEN(path, "rb" if "b" in mode else "r", **kw) as f:
                            initial = f.read()
                    if "x" in mode and os.path.exists(path):
                        raise FileExistsError(path)
                    if "b" in mode:
                        return _ByteBuf(self, path, mode, kw, initial or b"")
                    return _TextBuf(self, path, mode, kw, initial or "")
            return real(file, mode, buffering, encoding, errors, newline, closefd, opener)
        return opener

    def _unlink(self, real):
        def f(path, *a, **kw):
            rel = self._rel(path) if self._active else None
            if rel is None:
                return real(path, *a, **kw)
            k = self._before("unlink", rel)
            real(path, *a, **kw)
            self._after({"i": k, "kind": "unlink", "target": rel})
        return f

    def _rename(self, real):
        def f(src, dst, *a, **kw):
            rs = self._rel(src) if self._active else None
            rd = self._rel(dst) if self._active else None
            if rs is None and rd is None:
                return real(src, dst, *a, **kw)
            k = self._before("rename", f"{rs}->{rd}")
            real(src, dst, *a, **kw)
            self._after({"i": k, "kind": "rename", "target": f"{rs}->{rd}"})
        return f

    def _on_commit(self, conn):
        if not self._active:
            return
        try:
            url = str(conn.engine.url)
        except Exception:
            url = ""
        if str(self.root) not in url:
            return
        k = self._before("commit", "db")
        # the listener runs immediately before the DBAPI commit; nothing can fail in between
        self._after({"i": k, "kind": "commit", "target": "db"})

    # --------------------------------------------------------------- context
    def __enter__(self):
        from sqlalchemy import event
        from sqlalchemy.engine import Engine
        self._active = True
        io.open = self._open(_REAL_IO_OPEN)
        builtins.open = self._open(_REAL_BUILTIN_OPEN)
        os.unlink = self._unlink(_REAL_UNLINK)
        os.remove = self._unlink(_REAL_REMOVE)
        os.rename = self._rename(_REAL_RENAME)
        os.replace = self._rename(_REAL_REPLACE)
        self._listener = self._on_commit
        event.listen(Engine, "commit", self._listener)
        return self

    def __exit__(self, et, ev, tb):
        from sqlalchemy import event
        from sqlalchemy.engine import Engine
        self._active = False
        io.open = _REAL_IO_OPEN
        builtins.open = _REAL_BUILTIN_OPEN
        os.unlink, os.remove = _REAL_UNLINK, _REAL_REMOVE
        os.rename, os.replace = _REAL_RENAME, _REAL_REPLACE
        try:
            event.remove(Engine, "commit", self._listener)
        except Exception:
            pass
        return False
