"""I->S for the index properties: random long histories on real directories, every command recorded with the projected
pre / post state (ZIDs relabelled), validated by TLC against Index.tla (Trace_Index)."""
from __future__ import annotations

import copy
import hashlib
import json
import random

from . import bind_index as bi
from . import par, tlc, zenv

NPAGES = 5
KINDS = [("-", ""), ("o", ""), ("o", "P1"), ("x", ""), ("x", "P2"), ("~", "P1")]


def _vouched(d: bi.Dir, pages) -> list:
    hm = d.env.hashes()
    out = []
    for p in pages:
        path = d.env.path(d.names[p])
        out.append(bool(path.exists() and hm.get(d.names[p]) == hashlib.sha256(path.read_bytes()).hexdigest()))
    return out


def _state(d: bi.Dir, pages) -> dict:
    wl = [bi.FILE_PAGE[x] for x in d.env.whitelist() if x in bi.FILE_PAGE]
    return {"files": d.project_files(pages), "db": d.project_db(pages), "vouched": _vouched(d, pages), "wl": wl}


def _relabel(pre: dict, post: dict):
    """Joint canonical relabelling of ZIDs over pre then post. -> (pre', post', counters per day) or None if Corrupt."""
    label, count = {}, {}

    def lab(z):
        if not z:
            return []
        if z not in label:
            dday = bi.real_zid_day(z)
            if not isinstance(dday, int) or not 1 <= dday <= 6:
                raise ValueError("zid day " + str(z))
            label[z] = [dday, count.get(dday, 0)]
            count[dday] = count.get(dday, 0) + 1
        return label[z]

    def conv(st):
        files, dbs = [], []
        for p in sorted(st["files"]):
            pg = st["files"][p]
            if isinstance(pg, str):
                raise ValueError(pg)
            files.append({"ex": pg["ex"], "broken": pg["broken"], "notes": [dict(n, zid=lab(n["zid"])) for n in pg["notes"]]})
        for p in sorted(st["db"]):
            ip = st["db"][p]
            if isinstance(ip, str):
                raise ValueError(ip)
            dbs.append({"ex": ip["ex"], "broken": ip["broken"], "notes": [
                {"zid": lab(n["zid"]), "body": [n["body"][0], lab(n["body"][1]), n["body"][2], n["body"][3], n["body"][4]],
                 "kind": n["kind"], "prio": n["prio"], "cd": n["cd"], "md": n["md"], "pos": i + 1} for i, n in enumerate(ip["notes"])]})
        return files, dbs

    pf, pd = conv(pre)
    ctr = [count.get(dd, 0) for dd in range(1, 7)]
    qf, qd = conv(post)
    return (dict(pre, files=pf, db=pd, ctr=ctr), dict(post, files=qf, db=qd))


def one_history(args) -> list:
    seed, nsteps = args
    rng = random.Random(seed)
    zenv.set_day(bi.day_date(1))
    d = bi.Dir()
    pages = list(range(1, NPAGES + 1))
    today = 1
    uid = 0
    recs = []
    try:
        state = {p: {"ex": False, "broken": False, "notes": []} for p in pages}
        trash = {}
        for step in range(nsteps):
            x = rng.random()
            existing = [p for p in pages if state[p]["ex"]]
            if x < 0.30 and existing:
                # ---- a command
                files_before = copy.deepcopy(state)
                pre = _state(d, pages)
                kind = rng.random()
                paths = []
                force = False
                if kind < 0.25:
                    force = rng.random() < 0.3
                    r = d.env.db_create(force=force)
                    cmd = "create"
                else:
                    if rng.random() < 0.25 and existing:
                        paths = sorted(rng.sample(existing, rng.randint(1, min(2, len(existing)))))
                    r = d.env.reindex(*[str(d.env.path(d.names[p])) for p in paths])
                    cmd = "reindex"
                post = _state(d, pages)
                rec = {"id": f"s{seed}-{step}", "cmd": cmd, "force": force, "paths": paths, "ok": r.ok, "today": today,
                       "pre_raw": pre, "post_raw": post}
                try:
                    rec["pre"], rec["post"] = _relabel(pre, post)
                except ValueError as e:
                    rec["corrupt"] = str(e)
                recs.append(rec)
                # continue from what is really on disk
                pf = d.project_files(pages)
                if any(isinstance(v, str) for v in pf.values()):
                    break
                state = pf
                d.zmap = {}
                if cmd == "create" and not r.ok:
                    break           # after a refused create the index is gone: outside the properties
                continue
            # ---- a user edit on the abstract files (ZIDs are the real strings)
            before = copy.deepcopy(state)
            p = rng.choice(pages)
            pg = state[p]
            y = rng.random()
            if not pg["ex"]:
                if p in trash and rng.random() < 0.5:
                    state[p] = trash.pop(p)
                else:
                    state[p] = {"ex": True, "broken": False, "notes": []}
            elif y < 0.30 and len(pg["notes"]) < 6 and not pg["broken"]:
                uid += 1
                k = rng.choice(KINDS)
                pg["notes"].insert(rng.randint(0, len(pg["notes"])), {
                    "uid": uid, "zid": "", "ver": 0, "kind": k[0], "prio": k[1], "md": 0,
                    "ld": rng.choice([0, 0, today, max(1, today - 1)]), "gap": rng.choice([1, 1, 3]), "nl": rng.choice([1, 1, 2])})
            elif y < 0.55 and pg["notes"] and not pg["broken"]:
                n = rng.choice(pg["notes"])
                n["ver"] = 1 - n["ver"]
            elif y < 0.63 and pg["notes"] and not pg["broken"]:
                n = rng.choice(pg["notes"])
                opts = [k for k in KINDS if (k[0] == "-") == (n["kind"] == "-") and k != (n["kind"], n["prio"])]
                if opts:
                    n["kind"], n["prio"] = rng.choice(opts)
            elif y < 0.70 and pg["notes"] and not pg["broken"]:
                pg["notes"].pop(rng.randrange(len(pg["notes"])))
            elif y < 0.75 and len(pg["notes"]) > 1 and not pg["broken"]:
                i = rng.randrange(len(pg["notes"]) - 1)
                pg["notes"][i], pg["notes"][i + 1] = pg["notes"][i + 1], pg["notes"][i]
            elif y < 0.80 and pg["notes"] and not pg["broken"]:
                q = rng.choice([q for q in pages if q != p])
                if state[q]["ex"] and not state[q]["broken"] and len(state[q]["notes"]) < 6:
                    state[q]["notes"].append(pg["notes"].pop(rng.randrange(len(pg["notes"]))))
            elif y < 0.84 and pg["notes"] and not pg["broken"]:
                n = rng.choice(pg["notes"])
                n["md"] = 0
            elif y < 0.88:
                trash[p] = copy.deepcopy(pg)
                state[p] = {"ex": False, "broken": False, "notes": []}
            elif y < 0.92 and pg["notes"]:
                pg["broken"] = not pg["broken"]
            elif y < 0.96 and today < 6:
                today += 1
                zenv.set_day(bi.day_date(today))
            # a ZID-less note cannot carry a stamp; a note with a ZID no long date (the shapes of Index.tla)
            for q in pages:
                for n in state[q]["notes"]:
                    if not n["zid"]:
                        n["md"] = 0
                    else:
                        n["ld"] = 0
            d.zmap = {n["zid"]: n["zid"] for q in pages for n in state[q]["notes"] if n["zid"]}
            _write(d, state, before)
    finally:
        d.cleanup()
    return recs


def _write(d: bi.Dir, state: dict, before: dict) -> None:
    for p, pg in state.items():
        if before.get(p) == pg:
            continue
        path = d.env.path(d.names[p])
        if not pg["ex"]:
            if path.exists():
                path.unlink()
        else:
            text = bi.PAGE_HEAD[p] + "".join(_render(n) for n in pg["notes"]) + (bi.BROKEN_LINE if pg["broken"] else "")
            d.env.write(d.names[p], text)


def _render(n: dict) -> str:
    words = []
    if n["md"]:
        words.append(bi.d6(n["md"]))
    if n["zid"]:
        words.append(n["zid"])
    if n["ld"]:
        words.append(bi.d10(n["ld"]))
    words.append(f"u{n['uid']}v{n['ver']}")
    words += [f"q::u{n['uid']}", f"+t{n['uid']}"]
    line = n["kind"] + (f" {n['prio']}" if n["prio"] else "") + " " * n["gap"] + " ".join(words) + "\n"
    if n["nl"] == 2:
        line += f"  * b{n['uid']}v{n['ver']}\n"
    return line


def run_histories(ctx, seeds: list, nsteps: int) -> tuple[list, dict]:
    """-> (records, verdicts {id: None (accepted) | dict(spec successor)})"""
    recs = [r for part in par.pmap(one_history, [(s, nsteps) for s in seeds], chunk=1) for r in part]
    good = [r for r in recs if "pre" in r]
    f = tlc.scratch_root() / "index-histories.ndjson"
    f.write_text("".join(json.dumps({k: r[k] for k in ("id", "cmd", "force", "paths", "ok", "today", "pre", "post")}) + "\n" for r in good))
    res = tlc.run_tlc("Trace_Index", env={"ZV_TRACE": str(f)})
    if not res.ok:
        ctx.machinery(f"Trace_Index failed: {res.error}\n{res.output[-3000:]}")
    ctx.add("states", res.distinct)
    ctx.add("transitions", res.generated)
    verdict = {}
    for line in res.output.splitlines():
        if line.startswith('"{'):
            v = json.loads(json.loads(line))
            verdict[v["id"]] = None if v["ok"] else v
    return recs, verdict
