#!/bin/sh
# tools/seed_eval_wt.sh <property id> <worktree with the change applied> <seed dir> [tier]
# Evaluates a seeded change WITHOUT touching /repo: zorg is imported from the worktree (PYTHONPATH), evidence and replays
# go to scratch directories.  Confirms the demo in both directions and that the repository's tests pass with the change.
ID=$1; WT=$2; D=$3; TIER=${4:-quick}
echo "== demo on unchanged tree"; PYTHONPATH=/repo/src /venv/bin/python $D/demo.py > /tmp/sew1.out 2>&1; echo "rc=$?"
echo "== demo with the change"; PYTHONPATH=$WT/src /venv/bin/python $D/demo.py > /tmp/sew2.out 2>&1; echo "rc=$?"; tail -2 /tmp/sew2.out | cut -c1-300
echo "== diff of worktree equals patch.diff: $(git -C $WT diff | diff -q - $D/patch.diff > /dev/null && echo yes || echo NO)"
if [ -z "$SKIP_TESTS" ]; then echo "== repo tests with the change"; (cd $WT && PYTHONPATH=$WT/src /venv/bin/python -m pytest -q -p no:cacheprovider -x 2>&1 | tail -1); fi
echo "== ./check $ID $TIER with the change"
cd /verif && PYTHONPATH=$WT/src VERIF_EVIDENCE_DIR=/tmp/ev-seed VERIF_REPLAY_DIR=/tmp/rp-seed ./check $ID $TIER > /tmp/sew_check.log 2>&1; echo "check rc=$?"
grep -v "^KNOWN-FINDING\|info     " /tmp/sew_check.log | cut -c1-400 | head -6
