#!/bin/sh
# tools/run_tier.sh <tier> <summary file> ID... : runs ./check ID tier sequentially, one summary line per check
TIER=$1; OUT=$2; shift 2
cd /verif || exit 2
for p in "$@"; do
  s=$(date +%s)
  timeout 10800 ./check $p $TIER > /tmp/tier_${TIER}_$p.log 2>&1
  rc=$?
  e=$(date +%s)
  echo "$p $TIER rc=$rc secs=$((e-s)) viol=$(grep -c '^VIOLATION' /tmp/tier_${TIER}_$p.log) kf=$(grep -c '^KNOWN-FINDING' /tmp/tier_${TIER}_$p.log) drift=$(grep -c '^SPEC-DRIFT' /tmp/tier_${TIER}_$p.log)" >> $OUT
done
