#!/bin/sh
# tools/seed_all_wt.sh [tier] [seed dirs...] : like seed_all.sh but never touches /repo - every stored change is applied in a
# scratch worktree and zorg is imported from there (PYTHONPATH); results are appended to seeded/RESULTS_wt.txt
TIER=${1:-quick}; shift
cd /verif || exit 2
DIRS=${*:-$(ls -d seeded/C*/ | sort)}
WT=/tmp/wt-reg
[ -d $WT ] || git -C /repo worktree add --detach $WT HEAD -q
OUT=seeded/RESULTS_wt.txt
for D in $DIRS; do
  D=${D%/}; NAME=$(basename $D); ID=$(echo $NAME | cut -c1-3)
  if grep -q '"neutralised_by"' /verif/$D/meta.json 2>/dev/null; then echo "$NAME $TIER neutralised (see meta.json)" | tee -a $OUT; continue; fi
  git -C $WT checkout -q -- . ; git -C $WT apply /verif/$D/patch.diff || { echo "$NAME patch-does-not-apply" | tee -a $OUT; continue; }
  S=$(date +%s)
  PYTHONPATH=$WT/src VERIF_EVIDENCE_DIR=/tmp/ev-reg VERIF_REPLAY_DIR=/tmp/rp-reg ./check $ID $TIER > /tmp/seed_wt_$NAME.log 2>&1; RC=$?
  E=$(date +%s)
  N=$(grep -c '^VIOLATION' /tmp/seed_wt_$NAME.log)
  if [ $RC -eq 1 ] && [ $N -gt 0 ]; then R=caught; elif [ $RC -eq 0 ]; then R=MISSED; else R="machinery(rc=$RC)"; fi
  echo "$NAME $TIER $R violations=$N secs=$((E-S))" | tee -a $OUT
done
git -C $WT checkout -q -- .
