#!/usr/bin/env python3
"""Generates MANIFEST.json from the table below (single place to edit)."""
import json
from pathlib import Path

VERIF = Path(__file__).resolve().parent.parent
ALL = [f"C{i:02d}" for i in range(1, 19)]

CHECKS = {
 "C05": dict(
    category="model_checking",
    text="Index.tla models files, index, hash map, ZID counters, whitelist and day with `db create` / `db reindex` as atomic reference commands; TLC checks Agreement, AllZid, UniqueZid, OnlyZidInsertions, Idempotent exhaustively on bounded histories. Simulated behaviours (3 pages in two directories, long dates, irregular gaps, two-line notes, sections/tags in the real pages) are replayed on real directories through `zorg db create` / `db reindex`: after every command the projected files and raw index rows must equal the TLC successor state up to ZID renaming, recompiling the real files must reproduce the rows on every field (page, line, section path, block partition, ZID, kind, priority, body, dates, tags, links, properties), and a second run must change nothing.",
    design_ref="DESIGN.md section 6 C05",
    note="Trusts: TLC; the fixed note text shape of harness/bind_index.py (a line of another shape projects to Corrupt); raw rows read with sqlite3. Bounded page/notes counts; random behaviours rather than the full graph.",
    technique="TLA+ spec (Index.tla) + TLC exhaustive bounded histories + S->I replay of TLC behaviours on real directories with state comparison after every command"),
 "C06": dict(
    category="model_checking",
    text="Index.tla's DbReindex (plain and with explicit paths) is the reference; TLC checks RebuildEquivalence / NoGhostPages on all bounded histories over the full edit alphabet. Simulated histories (edits, page add/delete/rename, break/fix, day changes, explicit-path runs) are replayed on real directories; after every plain reindex the rows must equal the TLC successor AND the dump of a `db create` run on a copy of the final files.",
    design_ref="DESIGN.md section 6 C06",
    note="Trusts as C05. Explicit paths name existing files; behaviours end at a refused create.",
    technique="TLA+ spec (Index.tla, Bus.tla) + TLC + S->I replay with per-step state comparison and a real rebuild as second oracle; I->S: random histories (Trace_Index) and scripted `zorg edit` sessions (Trace_Bus)"),
 "C11": dict(
    category="model_checking",
    text="ShouldStamp in Index.tla decides stamping against the previous index state; the action property StampIff restates it against a ghost record of what the user last had indexed (GhostAgrees ties the two); TLC checks both on bounded multi-day histories including stamps removed by hand. Simulated multi-day histories are replayed on real directories: after every reindex stamps in files and rows must be the TLC successor's, every other line unchanged, and a second reindex a no-op.",
    design_ref="DESIGN.md section 6 C11",
    note="Trusts as C05; days are consecutive calendar days from 2024-12-29 (histories cross the year).",
    technique="TLA+ spec (Index.tla StampIff, Bus.tla) + TLC + S->I replay with per-step state comparison; I->S: random histories (Trace_Index) and scripted `zorg edit` sessions (Trace_Bus)"),
 "C07": dict(
    category="model_checking",
    text="Zid.tla is model-checked exhaustively (complete 135,252-suffix chain for the real alphabet; all interleavings over 3 dates with restarts and lost allocations for N=2; the real alphabet around every carry point) and bound to the code both ways: the chain and every edge of the race graph are replayed into the real ZIDManager with the durable file compared after each call, every replayed ZID is run through both lexers, is_zid and the page compiler, and random long histories of the real manager are validated as behaviours of the spec by TLC (Trace_Zid). Quick replays all carry neighbourhoods plus random ranks; thorough replays the whole chain.",
    design_ref="DESIGN.md section 6 C07",
    note="Trusts: TLC; the glue that spells a suffix with the spec's Alphabet and reads next_ids.json; dates 2000-2099. The replay observes ZIDManager.get_next and the file, not callers.",
    technique="TLA+ spec (Zid.tla) + TLC exhaustive chain/interleavings + S->I replay of TLC graph + I->S trace validation"),
 "C01": dict(
    category="model_checking",
    text="PageSem.tla states what a page means (Notes(page)); PageWalk.tla is the listener state machine and TLC checks that it refines PageSem on every single-item shape (MC_PageItem: ~100k states: kind x priority x id-prefix x 26 word forms at body positions 1-2 x continuation; invariants RefinesSem, PrefixLookalikesInert, NonItemsNeverNotes). Every page TLC reached (stratified sample in quick, all in thorough) plus random 10-50 line pages over the full vocabulary is rendered, compiled by the real compiler, and TLC (Trace_Page) compares count, order, line, kind, priority, ZID, dates and body of each note with PageSem.",
    design_ref="DESIGN.md section 6 C01",
    note="Trusts: TLC; the vocabulary (spelling of word classes, checked by PageSem!WordOK on every record); scope PageWalk!ItemInScope (no identifier-free word before a date/ZID look-alike); ASCII text.",
    technique="TLA+ spec (PageSem/PageWalk) + TLC refinement check + S->I replay of every TLC state + I->S batch validation of recorded compilations"),
 "C02": dict(
    category="model_checking",
    text="TLC checks that the listener model with per-scope stores and explicit resets (PageWalk) equals the tree-based denotation (PageSem) on every legal header skeleton up to 6 body lines / 5 headers with every own-decoration and date choice (2.2M states thorough, 198k quick; invariants RefinesSem, NoLeak, LegalAgrees). The pages of the deterministic-decoration configuration (every scope carries unique tags, link, property, shared key, optional date) and random metadata-dense pages are compiled by the real compiler and TLC compares tags, links, properties and create date of every note with PageSem.",
    design_ref="DESIGN.md section 6 C02",
    note="Trusts: TLC; vocabulary; one bullet level per note for property bullets; no date-valued property in a header (DESIGN don't-care).",
    technique="TLA+ spec (PageSem/PageWalk) + TLC exhaustive skeleton enumeration + S->I replay + I->S batch validation"),
 "C08": dict(
    category="exploration",
    text="Compile part: random valid pages, each damaged by 1-3 character/token/line edits, random strings and bytes are compiled by the real compiler; an independent ANTLR listener of the harness counts syntax errors and items; TLC evaluates Trace_Compile!CompileOK (no exception; flagged iff syntax errors; broken => no notes; valid => all items) on every record. Protocol part (refusal / whitelist) is model-checked and replayed with the index model. Totality over all texts cannot be enumerated, hence exploration.",
    design_ref="DESIGN.md section 6 C08 and section 7",
    note="Random sampling of texts; the oracle is a TLA+ predicate evaluated by TLC; one recorded known finding (unflagged broken page without items).",
    technique="random/damaged-text exploration with a TLA+ oracle evaluated by TLC (Trace_Compile); protocol part via Index.tla"),
 "C12": dict(
    category="model_checking",
    text="Design-level theorem RoundTrip is TLC-checked on every single-item shape (MC_PageItem). Binding: for every TLC-reached item page and random pages, each real Note.to_string() must equal PageSem!RenderNote of the expected note, and the page made of a title line plus the emitted texts is compiled by the real compiler and compared by TLC with Notes(Page2(page)) on exactly the fields the property names.",
    design_ref="DESIGN.md section 6 C12",
    note="Trusts: TLC, vocabulary. One recorded known finding (done/cancelled todo whose body starts with a priority-shaped word).",
    technique="TLA+ spec (PageSem RenderNote/RoundTrip) + TLC + S->I replay through the real to_string and compiler + batch validation by TLC"),
 "C13": dict(
    category="fault_enumeration",
    text="IndexSteps.tla splits create/reindex at every external effect with Crash and Rerun; TLC accepts the repaired hash rule with two crashes and refutes the two earlier effect orders (design level). The verdict is fault enumeration on the real code: every create/reindex command of simulated behaviours is traced once through the interposition layer, then killed before each external effect (thorough: each file write also torn at 0/50/97 %) and run again; the rerun must succeed and reach the state of the uninterrupted run up to ZID renaming, with real-level agreement and no duplicate ZID. Exhaustive over the effect boundaries of every explored scenario.",
    design_ref="DESIGN.md section 6 C13",
    note="Crash = BaseException raised at the effect boundary in-process + engine dropped; SQLite commit atomicity trusted. Effects observed at io.open / os.unlink / os.rename / os.replace / SQLAlchemy commit.",
    technique="TLA+ spec (IndexSteps.tla) + TLC on crash/rerun model + exhaustive crash-point (and torn-write) enumeration on the real commands via interposition"),
 "C03": dict(
    category="model_checking",
    text="Filter.tla defines Sat/Result of a WHERE tree on a universe of notes (text on code points, dates, typed property comparison, smart case, * globs, link resolution through ZID/ID/RID). TLC (MC_Filter) enumerates every atom of an 86-entry atom table and the compositions a b, a | b, (a | b) c, c (a | b c) | a over the basis and evaluates Result on a designed universe read from the real index; each query text runs through the real compiler and SQLite index and must return TLC's set. Random universes x random queries: the compiled WHERE structure is projected, the real answer recorded, and TLC (Trace_Filter) evaluates Result on the raw rows.",
    design_ref="DESIGN.md section 6 C03",
    note="Trusts: TLC; projection of rows / WhereOrFilter objects to Filter.tla values (code points, YYYYMMDD). Compared property values are well-typed per key; names lower-case ASCII.",
    technique="TLA+ spec (Filter.tla) + TLC exhaustive atom/composition enumeration + S->I replay on the real index + I->S batch validation"),
 "C04": dict(
    category="model_checking",
    text="QueryGrammar.tla gives, per family, the query texts and the structure they denote (all 64 priority spellings, kind strings, select forms x clause layouts, order/group lists, property atoms with inferred type, tags, date atoms through Dates.tla - TLC-checked calendar arithmetic - under 4 (quick) / 24 (thorough) todays); MC_Filter gives tree shapes. Every TLC-enumerated text is compiled by the real build_zorg_query under a frozen clock and the projected Query must equal the denoted structure.",
    design_ref="DESIGN.md section 6 C04",
    note="Trusts: TLC; projection of Query objects; identifiers avoid the grammar's literal tokens. One recorded known finding (key:DATE-SPEC equality atoms raise).",
    technique="TLA+ spec (QueryGrammar.tla, Dates.tla) + TLC exhaustive family enumeration + S->I replay into the real query compiler"),
 "C09": dict(
    category="model_checking",
    text="Output.tla states the clauses of a faithful rendering (groups, group-order, each-once, note-order, values, values-sorted, count). TLC (MC_Output) enumerates select form x GROUP BY list x ORDER BY list; each query is executed by the real swog.execute on the designed universe and random universes, the output parsed into entries with header paths, matching notes read from raw rows, and TLC (Trace_Output) evaluates every clause.",
    design_ref="DESIGN.md section 6 C09",
    note="Trusts: TLC; the output parser by marker lines; note text of a row = PageSem!RenderNote (bound by C12). One recorded known finding (`O none` compares line numbers as text).",
    technique="TLA+ spec (Output.tla) + TLC case enumeration + S->I execution on the real index + batch validation of rendered outputs by TLC"),
 "C15": dict(
    category="model_checking",
    text="SavedQ.tla defines substitution of {name} by the saved WHERE tree as a unit (RefLaw). TLC (MC_SavedQ) enumerates 6,048 cases: acyclic saved sets qa->qb->qc with conjunctions / alternatives / groups / nested references, four first-line layouts with S/O/G, six referencing contexts, and computes Filter!Result of the substituted tree; the real expand_saved_queries + compiler + index must return the same notes; missing names must be errors.",
    design_ref="DESIGN.md section 6 C15",
    note="Trusts as C03. One recorded known finding (kinds/priorities pool across a reference boundary).",
    technique="TLA+ spec (SavedQ.tla over Filter.tla) + TLC case enumeration + S->I replay through the real expansion, compiler and index"),
 "C10": dict(
    category="model_checking",
    text="FileOps.tla states `note move` as clauses over file lines and compiled notes (source-lines, dest-lines with a free landing position, pages-compile, other-notes, moved-once, moved-kind, moved-text, moved-metadata). TLC (MC_Move) enumerates 3,960 scenarios: source shapes (sections, inherited tags and properties incl. a multi-word one, ZID mentions in other notes, bullet lines, a note that is only its ZID) x note x marker x 11 destination forms (missing with/without template, header only, with items, ending in a section header with/without final newline, the note's own page). Each is run through the real `db create` and `note move`; TLC (Trace_Move) evaluates every clause on the recorded lines and on the notes the real compiler reports before/after.",
    design_ref="DESIGN.md section 6 C10",
    note="Trusts: TLC; the real compiler as reader of the pages (bound by C01/C02); a move that exits non-zero must leave both files unchanged.",
    technique="TLA+ spec (FileOps.tla MoveClauses) + TLC scenario enumeration + S->I execution of the real command + batch validation by TLC"),
 "C14": dict(
    category="model_checking",
    text="FileOps.tla defines rename on token sequences (RenameToks). TLC (MC_Rename) enumerates 5 (A, B) pairs x every sequence of up to 2 (quick: 1,360 cases) / 3 (thorough: 21,840) tokens over links to A, anchors, A's adversarial neighbours (prefix, extension, suffix-sharing, path-extensions, with extension) and look-alike text, and renders text before/after; the sequences are written into .zo/.zot/.zoq files in root and sub-directories, the real `zorg file rename` runs, and every file plus the directory listing is compared byte for byte.",
    design_ref="DESIGN.md section 6 C14",
    note="Trusts: TLC's string concatenation as the renderer of expected texts. Destination directory exists.",
    technique="TLA+ spec (FileOps.tla RenameToks) + TLC exhaustive token-sequence enumeration + S->I execution of the real command with byte comparison"),
 "C16": dict(
    category="model_checking",
    text="FileOps.tla defines template initialisation (FirstMatch over an ordered pattern sequence, InitResult); TLC (MC_Template) checks NoClobber and Idempotent on all 2,784 cases (ordered maps of up to three of four overlapping patterns with named groups and a date-like capture x six paths incl. missing sub-directories x existing/missing x overwrite x explicit template x extra variable) and emits the expected bytes after one and after two calls. Each case runs the real `zorg template init` (an explicit template through the shared service function) twice with byte comparison, while the interposition layer asserts that an existing target is never written without the overwrite flag; six directed runs drive edit, action open and note move on missing and existing pages.",
    design_ref="DESIGN.md section 6 C16",
    note="Trusts: TLC string concatenation as renderer of the expected text; the .zot files of harness/props/c16.py correspond to MC_Template!RenderWith.",
    technique="TLA+ spec (FileOps.tla InitResult) + TLC law checking and case enumeration + S->I execution with byte comparison and write interposition"),
 "C17": dict(
    category="model_checking",
    text="ActionOpen.tla defines Targets (fold with the identity-position flag), Open, Respond and OptionLaw; TLC (MC_Action) checks OptionLaw on every case and enumerates 6 prefixes x bodies of up to 2/3 words over 15 word forms (plain, ZIDs, page links with/without anchors, local/global/reference links, punctuation wrappings, bracketed ZIDs) x page type x 5 option indices (14k quick / 200k thorough). Each line is written into a page of the designed indexed directory and `zorg action open` runs through main(); stdout must consist of protocol messages equal to the expected ones.",
    design_ref="DESIGN.md section 6 C17",
    note="ECHO wording not compared; SEARCH arguments compared without zorg's regex prefix/suffix; `open` stubbed; lines that start with a ZID are outside the property.",
    technique="TLA+ spec (ActionOpen.tla) + TLC law checking and case enumeration + S->I execution of the real command"),
 "C18": dict(
    category="model_checking",
    text="FileGroups.tla defines Expand (depth-first, in place, in order; date patterns through the TLC-checked Dates.tla); the homomorphism law is checked by TLC on the specification; MC_Groups enumerates 189,000 (group map, argument list) cases per today (acyclic maps over four names, nesting depth 4, shared sub-groups, plain members, date patterns for today..today-6) under 2 (quick, sampled) / 6 (thorough, all) todays across month, year and leap boundaries. The real expand_file_group_paths runs under a frozen clock and must return exactly the expected list; f(a+b) = f(a)+f(b) is also checked on the code.",
    design_ref="DESIGN.md section 6 C18",
    note="Trusts: TLC; group maps acyclic; documented pattern fields only.",
    technique="TLA+ spec (FileGroups.tla) + TLC exhaustive enumeration + S->I replay into the real function"),
}
NOT_YET = "check not built yet in this round (planned in DESIGN.md section 6); not claimed until its evidence exists"

def main():
    checks = []
    for pid in ALL:
        if pid not in CHECKS:
            continue
        c = CHECKS[pid]
        checks.append({
            "property_id": pid,
            "quick_cmd": f"./check {pid} quick",
            "thorough_cmd": f"./check {pid} thorough",
            "evidence_file": f"/verif/evidence/{pid}.json",
            "replay_cmd_template": f"./check {pid} quick --replay {{path}}",
            "engine": "tlc+python-binding",
            "level_claimed": {"category": c["category"], "text": c["text"], "design_ref": c["design_ref"]},
            "level_note": c["note"],
            "technique": c["technique"],
        })
    m = {
        "version": 1,
        "setup_cmd": "./setup.sh",
        "hooks": {"guard": "ZORG_VERIF", "enable": "no source hooks: observation and fault injection are done by interposition inside the harness process (harness/interpose.py)",
                  "baseline_off_cmd": "cd /repo && /venv/bin/python -m pytest -ra -q -p no:cacheprovider --timeout=900",
                  "source_commits": [], "add_only": True},
        "engines": [{"name": "tlc+python-binding", "path": "/verif/check",
                     "serves_properties": [c["property_id"] for c in checks],
                     "kind_free_text": "TLA+ specifications in /verif/spec checked by TLC 1.8; Python binding (harness/) replays TLC graphs/behaviours into the real zorg and has TLC validate traces recorded from it"}],
        "checks": checks,
        "notes": "Repairs of genuine defects are separate 'fix:' commits in /repo, listed in known_findings.json.",
        "not_applicable": [{"property_id": p, "reason": NOT_YET} for p in ALL if p not in CHECKS],
    }
    (VERIF / "MANIFEST.json").write_text(json.dumps(m, indent=1) + "\n")

if __name__ == "__main__":
    main()
