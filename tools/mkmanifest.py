#!/usr/bin/env python3
"""Generates MANIFEST.json from the table below (single place to edit)."""
import json
from pathlib import Path

VERIF = Path(__file__).resolve().parent.parent
ALL = [f"C{i:02d}" for i in range(1, 19)]

CHECKS = {
 "C07": dict(
    category="model_checking",
    text="Zid.tla is model-checked exhaustively (complete 135,252-suffix chain for the real alphabet; all interleavings over 3 dates with restarts and lost allocations for N=2; the real alphabet around every carry point) and bound to the code both ways: the chain and every edge of the race graph are replayed into the real ZIDManager with the durable file compared after each call, every replayed ZID is run through both lexers, is_zid and the page compiler, and random long histories of the real manager are validated as behaviours of the spec by TLC (Trace_Zid). Quick replays all carry neighbourhoods plus random ranks; thorough replays the whole chain.",
    design_ref="DESIGN.md section 6 C07",
    note="Trusts: TLC; the glue that spells a suffix with the spec's Alphabet and reads next_ids.json; dates 2000-2099. The replay observes ZIDManager.get_next and the file, not callers.",
    technique="TLA+ spec (Zid.tla) + TLC exhaustive chain/interleavings + S->I replay of TLC graph + I->S trace validation"),
}
NOT_YET = "check not built yet in this round (planned in DESIGN.md section 6); not claimed until its evidence exists"

def main():
    checks = []
    for pid in ALL:
        if pid not in CHECKS:
            continue
        c = CHECKS[pid]
        checks.append({
            "property_id": pid,
            "quick_cmd": f"./check {pid} quick",
            "thorough_cmd": f"./check {pid} thorough",
            "evidence_file": f"/verif/evidence/{pid}.json",
            "replay_cmd_template": f"./check {pid} quick --replay {{path}}",
            "engine": "tlc+python-binding",
            "level_claimed": {"category": c["category"], "text": c["text"], "design_ref": c["design_ref"]},
            "level_note": c["note"],
            "technique": c["technique"],
        })
    m = {
        "version": 1,
        "setup_cmd": "./setup.sh",
        "hooks": {"guard": "ZORG_VERIF", "enable": "no source hooks: observation and fault injection are done by interposition inside the harness process (harness/interpose.py)",
                  "baseline_off_cmd": "cd /repo && /venv/bin/python -m pytest -ra -q -p no:cacheprovider --timeout=900",
                  "source_commits": [], "add_only": True},
        "engines": [{"name": "tlc+python-binding", "path": "/verif/check",
                     "serves_properties": [c["property_id"] for c in checks],
                     "kind_free_text": "TLA+ specifications in /verif/spec checked by TLC 1.8; Python binding (harness/) replays TLC graphs/behaviours into the real zorg and has TLC validate traces recorded from it"}],
        "checks": checks,
        "notes": "Repairs of genuine defects are separate 'fix:' commits in /repo, listed in known_findings.json.",
        "not_applicable": [{"property_id": p, "reason": NOT_YET} for p in ALL if p not in CHECKS],
    }
    (VERIF / "MANIFEST.json").write_text(json.dumps(m, indent=1) + "\n")

if __name__ == "__main__":
    main()
