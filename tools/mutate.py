#!/venv/bin/python
"""tools/mutate.py N SEED : blind mutation run (an unbiased complement to the hand-seeded changes).

Small single-token mutants of src/zorg are made in a scratch worktree (never in /repo); a mutant that the repository's
own 84 tests do not notice is run against the quick checks of the properties anchored in the mutated file
(properties.jsonl anchors.files), with PYTHONPATH pointing at the worktree and evidence / replays redirected.
-> /verif/mutants/RESULTS.jsonl (one line per mutant) and mutants/<id>.diff for survivors of the tests."""
import json
import os
import random
import re
import subprocess
import sys
from pathlib import Path

VERIF = Path("/verif")
WT = Path("/tmp/wt-mut")
OUT = VERIF / "mutants"
OPS = [
    (r" == ", " != "), (r" != ", " == "), (r" < ", " <= "), (r" <= ", " < "), (r" > ", " >= "), (r" >= ", " > "),
    (r" and ", " or "), (r" or ", " and "), (r"\bnot ", ""), (r"\[0\]", "[-1]"), (r"\[-1\]", "[0]"), (r"\[1:\]", "[:]"),
    (r"\bTrue\b", "False"), (r"\bFalse\b", "True"), (r" \+ 1\b", " + 2"), (r" - 1\b", ""), (r"\.lstrip\(\)", ".strip()"),
    (r"\.rstrip\(\)", ".strip()"), (r"\.strip\(\)", ""), (r" in ", " not in "), (r" is None", " is not None"),
    (r" is not None", " is None"), (r"\bcontinue\b", "break"), (r"\bmin\(", "max("), (r"\bany\(", "all("), (r"\ball\(", "any("),
    (r"\.append\(", ".insert(0, "), (r"sorted\(", "list("), (r"\.pop\(0\)", ".pop()"), (r"\.startswith\(", ".endswith("),
]
SKIP_LINE = re.compile(r'^\s*(#|"""|_LOGGER|import |from |assert |raise |def |class |@)|logger|_LOGGER|c\.zprint|print\(')


def files_to_props():
    m = {}
    for line in open(VERIF / "properties.jsonl"):
        d = json.loads(line)
        for f in d["anchors"]["files"]:
            if f.endswith(".py") and "/grammar/" not in f and "config.py" not in f:
                m.setdefault(f, []).append(d["id"])
    return m


def sh(cmd, **kw):
    return subprocess.run(cmd, shell=True, capture_output=True, text=True, **kw)


def main():
    n, seed = int(sys.argv[1]), int(sys.argv[2])
    rng = random.Random(seed)
    OUT.mkdir(exist_ok=True)
    if not WT.exists():
        r = sh(f"git -C /repo worktree add --detach {WT} HEAD -q")
        assert r.returncode == 0, r.stderr
    f2p = files_to_props()
    sites = []
    for f in sorted(f2p):
        in_doc = False
        for i, line in enumerate((WT / f).read_text().split("\n")):
            if line.count('"""') == 1:
                in_doc = not in_doc
                continue
            if in_doc or SKIP_LINE.search(line):
                continue
            for k, (pat, rep) in enumerate(OPS):
                for m in re.finditer(pat, line):
                    sites.append((f, i, k, m.start()))
    rng.shuffle(sites)
    env = dict(os.environ, PYTHONPATH=str(WT / "src"), VERIF_EVIDENCE_DIR="/tmp/mut-evidence", VERIF_REPLAY_DIR="/tmp/mut-replays",
               PYTHONDONTWRITEBYTECODE="1")
    done = 0
    res_path = OUT / "RESULTS.jsonl"
    for (f, i, k, col) in sites:
        if done >= n:
            break
        sh(f"git -C {WT} checkout -- .")
        path = WT / f
        lines = path.read_text().split("\n")
        pat, rep = OPS[k]
        new = lines[i][:col] + re.sub(pat, rep, lines[i][col:], count=1)
        if new == lines[i]:
            continue
        old_line = lines[i]
        lines[i] = new
        path.write_text("\n".join(lines))
        if sh(f"/venv/bin/python -m py_compile {path}").returncode != 0:
            continue
        mid = f"s{seed}-{done:03d}"
        done += 1
        rec = {"id": mid, "file": f, "line": i + 1, "before": old_line.strip(), "after": new.strip()}
        t = sh(f"cd {WT} && /venv/bin/python -m pytest -q -p no:cacheprovider -x --timeout=600 2>&1 | tail -1", env=env)
        rec["tests"] = t.stdout.strip()[-80:]
        if " passed" not in t.stdout or "failed" in t.stdout or "error" in t.stdout:
            rec["verdict"] = "killed-by-tests"
        else:
            (OUT / f"{mid}.diff").write_text(sh(f"git -C {WT} diff").stdout)
            rec["checks"] = {}
            caught = False
            for pid in f2p[f]:
                c = sh(f"cd {VERIF} && ./check {pid} quick > /tmp/mut-check.log 2>&1; echo rc=$?; grep -c '^VIOLATION' /tmp/mut-check.log", env=env)
                out = c.stdout.strip().split("\n")
                rc, nviol = int(out[0].split("=")[1]), int(out[1] or 0)
                rec["checks"][pid] = {"rc": rc, "violations": nviol}
                if rc == 1 and nviol:
                    caught = True
                    first = [l for l in open("/tmp/mut-check.log") if l.startswith("  ")][:1]
                    rec["first_violation"] = first[0].strip()[:300] if first else ""
                    break
                if rc == 2:
                    rec["machinery"] = open("/tmp/mut-check.log").read()[-600:]
            rec["verdict"] = "caught" if caught else ("machinery" if any(v["rc"] == 2 for v in rec["checks"].values()) else "survived")
        with open(res_path, "a") as fh:
            fh.write(json.dumps(rec) + "\n")
        print(json.dumps(rec), flush=True)
    sh(f"git -C {WT} checkout -- .")


if __name__ == "__main__":
    main()
