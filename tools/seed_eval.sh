#!/bin/sh
# tools/seed_eval.sh <property id> <seed dir> [tier] : confirm a seeded change (tests pass, demo fails with / passes without it),
# run the property's check against it in /repo, and undo it straight afterwards.
ID=$1; D=$2; TIER=${3:-quick}
cd /repo || exit 2
git diff --quiet || { echo "/repo is dirty"; exit 2; }
echo "== demo on unchanged tree"; PYTHONPATH=/repo/src /venv/bin/python $D/demo.py > /tmp/seed_eval.out 2>&1; echo "rc=$?"
git apply $D/patch.diff || { echo "patch does not apply"; exit 2; }
echo "== demo with the change"; PYTHONPATH=/repo/src /venv/bin/python $D/demo.py > /tmp/seed_eval2.out 2>&1; echo "rc=$?"; tail -3 /tmp/seed_eval2.out | cut -c1-300
if [ -z "$SKIP_TESTS" ]; then echo "== repo tests with the change"; /venv/bin/python -m pytest -q -p no:cacheprovider -x 2>&1 | tail -1; fi
echo "== ./check $ID $TIER with the change"
(cd /verif && ./check $ID $TIER 2>&1 | cut -c1-400 | head -8; echo "check rc=$?")
cd /repo && git checkout -- . && git status --short | head -3
