#!/usr/bin/env python3
"""Writes corpus/filter_atoms.json: the atom table of MC_Filter (query spelling + the and-filter it denotes).
The table is data, authored here in readable form; TLC composes the atoms and evaluates Filter!Result."""
import json
from pathlib import Path

def T(s): return [ord(c) for c in s]
E = dict(kinds=[], prios=[], tags=[], cr=[], mr=[], props=[], texts=[], files=[], links=[], ors=[])
def A(txt, basis=False, **kw):
    d = json.loads(json.dumps(E)); d.update(kw)
    return {"txt": txt, "f": d, "basis": basis}
def tag(ty, n, neg=False): return dict(ty=ty, name=n, neg=neg)
def prop(key, op, vt="STRING", ival=0, sval="", neg=False):
    vt = "ANY" if op == "EXISTS" else vt
    return dict(key=T(key), op=op, vt=vt, ival=ival, sval=T(sval), neg=neg)
def text(v, cs="smart", neg=False): return dict(v=T(v), cs=cs, neg=neg)
def file(g, neg=False): return dict(glob=T(g), neg=neg)
def link(p, neg=False): return dict(page=T(p), neg=neg)

atoms = [
 A("o", True, kinds=["o"]), A("-", True, kinds=["-"]), A("x~", True, kinds=["x", "~"]), A("o<>", kinds=["o", "<", ">"]), A("-o", kinds=["-", "o"]),
 A("P1", True, prios=["P1"]), A("P0-3", True, prios=["P0", "P1", "P2", "P3"]), A("P2-9", prios=[f"P{i}" for i in range(2, 10)]), A("P9", True, prios=["P9"]),
 A("+pj1", True, tags=[tag("projects", "pj1")]), A("!+pj1", True, tags=[tag("projects", "pj1", True)]),
 A("#ar1", True, tags=[tag("areas", "ar1")]), A("!#ar1", tags=[tag("areas", "ar1", True)]),
 A("@cx1", True, tags=[tag("contexts", "cx1")]), A("!@cx1", tags=[tag("contexts", "cx1", True)]),
 A("%pe1", tags=[tag("people", "pe1")]), A("!%pe1", tags=[tag("people", "pe1", True)]), A("+nope", tags=[tag("projects", "nope")]),
 A("^240301", True, cr=[[20240301, 0]]), A("^240201:240301", cr=[[20240201, 20240301]]), A("^240116:240309", cr=[[20240116, 20240309]]),
 A("^240302:240309", cr=[[20240302, 20240309]]), A("$240305", True, mr=[[20240305, 0]]), A("$240201:240305", mr=[[20240201, 20240305]]),
 A("due:*", True, props=[prop("due", "EXISTS")]), A("!due:*", True, props=[prop("due", "EXISTS", neg=True)]),
 A("due:2024-03-05", props=[prop("due", "EQ", "DATE", 20240305, "2024-03-05")]),
 A("due:<2024-03-10", props=[prop("due", "LT", "DATE", 20240310, "2024-03-10")]),
 A("due:<=2024-03-05", True, props=[prop("due", "LE", "DATE", 20240305, "2024-03-05")]),
 A("due:>2024-03-05", props=[prop("due", "GT", "DATE", 20240305, "2024-03-05")]),
 A("due:>=240310", props=[prop("due", "GE", "DATE", 20240310, "240310")]),
 A("!due:<=2024-03-05", True, props=[prop("due", "LE", "DATE", 20240305, "2024-03-05", True)]),
 A("!due:>2024-03-05", props=[prop("due", "GT", "DATE", 20240305, "2024-03-05", True)]),
 A("n:5", props=[prop("n", "EQ", "INTEGER", 5, "5")]), A("n:>5", True, props=[prop("n", "GT", "INTEGER", 5, "5")]),
 A("n:>=7", props=[prop("n", "GE", "INTEGER", 7, "7")]), A("n:<12", props=[prop("n", "LT", "INTEGER", 12, "12")]),
 A("n:<=5", props=[prop("n", "LE", "INTEGER", 5, "5")]), A("!n:>5", props=[prop("n", "GT", "INTEGER", 5, "5", True)]),
 A("!n:5", props=[prop("n", "EQ", "INTEGER", 5, "5", True)]),
 A("s:abc", props=[prop("s", "EQ", "STRING", 0, "abc")]), A("s:>abc", True, props=[prop("s", "GT", "STRING", 0, "abc")]),
 A("s:<=abc", props=[prop("s", "LE", "STRING", 0, "abc")]), A("!s:abc", props=[prop("s", "EQ", "STRING", 0, "abc", True)]),
 A("k:v", props=[prop("k", "EQ", "STRING", 0, "v")]), A("nokey:*", props=[prop("nokey", "EXISTS")]), A("!nokey:*", props=[prop("nokey", "EXISTS", neg=True)]),
 A("'alpha'", True, texts=[text("alpha")]), A("'Alpha'", texts=[text("Alpha")]), A("'ALPHA'", texts=[text("ALPHA")]),
 A("c'alpha'", texts=[text("alpha", "yes")]), A("!'alpha'", True, texts=[text("alpha", neg=True)]), A("!c'alpha'", texts=[text("alpha", "yes", True)]),
 A("'a_b'", True, texts=[text("a_b")]), A("c'a_b'", texts=[text("a_b", "yes")]), A("'Mixed_Case'", texts=[text("Mixed_Case")]),
 A("'a%b'", True, texts=[text("a%b")]), A("c'a%b'", texts=[text("a%b", "yes")]), A("'50%_off'", texts=[text("50%_off")]),
 A("'back\\slash'", texts=[text("back\\slash")]), A("'C:\\path'", texts=[text("C:\\path")]), A("'todo with'", texts=[text("todo with")]),
 A("\"100%\"", texts=[text("100%")]), A("!'a_b'", texts=[text("a_b", neg=True)]), A("'axb'", texts=[text("axb")]), A("'zzz'", texts=[text("zzz")]),
 A("f=b", True, files=[file("b.zo")]), A("f=b*", files=[file("b*")]), A("f=*b", files=[file("*b.zo")]), A("f=*_log", True, files=[file("*_log.zo")]),
 A("f=sub/bb", files=[file("sub/bb.zo")]), A("f=sub/*b", files=[file("sub/*b.zo")]), A("f=c*", files=[file("c*")]), A("!f=b", True, files=[file("b.zo", True)]),
 A("!f=*_log", files=[file("*_log.zo", True)]), A("f=a", files=[file("a.zo")]), A("f=nope", files=[file("nope.zo")]),
 A("[[b]]", True, links=[link("b")]), A("![[b]]", True, links=[link("b", True)]), A("[[bb]]", links=[link("bb")]), A("[[sub/bb]]", links=[link("sub/bb")]),
 A("[[a]]", links=[link("a")]), A("![[a]]", links=[link("a", True)]), A("[[c_log]]", links=[link("c_log")]), A("![[c_log]]", links=[link("c_log", True)]),
 A("[[nope]]", links=[link("nope")]),
]
out = Path(__file__).resolve().parent.parent / "corpus" / "filter_atoms.json"
out.write_text(json.dumps(atoms, indent=0) + "\n")
print(len(atoms), "atoms,", sum(a["basis"] for a in atoms), "in the basis")
