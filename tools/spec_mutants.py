#!/usr/bin/env python3
"""Mutation test of the SPECIFICATIONS: each mutant removes or bends one rule of an operational model; TLC must
refute it with the named property.  Shows that the design-level checks are not vacuous.  Writes spec_mutants.json."""
import json
import shutil
import sys
import tempfile
from pathlib import Path

sys.path.insert(0, str(Path(__file__).resolve().parent.parent))
from harness import tlc  # noqa: E402

SPEC = Path(__file__).resolve().parent.parent / "spec"
MUTANTS = [
    ("PageWalk.tla", "!.h3 = IF l <= 3 THEN EmptyStore ELSE @", "!.h3 = @", "MC_PageSkel", "MC_PageSkel_quick.cfg", {"Refines", "NoLeak"},
     "the listener forgets to reset the H3 stores when an H3 section ends"),
    ("PageWalk.tla", "(isFirst \\/ (isSecond /\\ c.mdate # None)) /\\ w.c = \"zid\"", "(isFirst \\/ isSecond) /\\ w.c = \"zid\"", "MC_PageItem", "MC_PageItem.cfg",
     {"Refines", "PrefixLookalikesInert"}, "a ZID is accepted as second identifier without a modify date"),
    ("PageWalk.tla", "StoreAddAll(s, Head(hs), FALSE, TRUE, FALSE)", "StoreAddAll(s, Head(hs), TRUE, TRUE, FALSE)", "MC_PageSkel", "MC_PageSkel_quick.cfg",
     {"Refines", "NoLeak"}, "tags of later header lines are credited to the page"),
    ("Zid.tla", "ELSE IF s[1] < N-1 THEN << s[1]+1, 0 >>", "ELSE IF s[1] < N-1 THEN << s[1]+1, 1 >>", "MC_ZidSmall", "MC_ZidSmall.cfg", {"ChainAgrees", "Monotone"},
     "the carry of the two-character odometer skips a suffix"),
    ("Index.tla", "ELSE IF paths = {} /\\ p \\in Gone THEN Absent ELSE db[p]]", "ELSE db[p]]", "MC_Index", "MC_IndexQuick.cfg", {"RebuildEquivalence", "NoGhostPages", "Agreement"},
     "a plain reindex keeps the notes of deleted pages"),
    ("Index.tla", "  /\\ EffMd(n, today) # today\n", "\n", "MC_Index", "MC_IndexQuick.cfg", {"StampIff", "Idempotent"},
     "the 'already dated today' guard of stamping is dropped"),
    ("Index.tla", "IF ~Exists(p) THEN NoHash ELSE IF p \\in S THEN r[1][p] ELSE hashes[p]]", "IF ~Exists(p) THEN NoHash ELSE r[1][p]]", "MC_Index", "MC_IndexPaths.cfg",
     {"RebuildEquivalence", "Agreement", "GhostAgrees"}, "the hash map vouches for pages that were not processed (explicit-path run)"),
    ("FileOps.tla", "IF old # \"\" /\\ ~overwrite THEN old", "IF FALSE THEN old", "MC_Template", "MC_Template.cfg", {"NoClobber"},
     "template init ignores that the target exists"),
    ("ActionOpen.tla", "ELSE IF opt = Last THEN Open(ts[Len(ts)], Owner)", "ELSE IF opt = Last THEN Open(ts[1], Owner)", "MC_Action", "MC_Action_FALSE.cfg", {"LawHolds"},
     "option -1 opens the first target"),
    ("Dates.tla", "AddMonths(dt, n) == LET t == dt[1] * 12 + (dt[2] - 1) + n IN Clamp(t \\div 12, (t % 12) + 1, dt[3])",
     "AddMonths(dt, n) == LET t == dt[1] * 12 + (dt[2] - 1) + n IN << t \\div 12, (t % 12) + 1, dt[3] >>", "MC_Dates", "MC_Dates.cfg", {"MonthsValid"},
     "month arithmetic without end-of-month clamping"),
    ("IndexSteps.tla", "IF AllHaveZid(files[e.p]) THEN [hashes EXCEPT ![e.p] = files[e.p]] ELSE hashes", "[hashes EXCEPT ![e.p] = files[e.p]]", "MC_IndexSteps",
     "MC_IndexSteps_fixed.cfg", {"Converges"}, "a write-back records the page's hash although another write-back is pending"),
    ("Bus.tla", "Sorted(q) == SelectSeq(q, IsEvent) \\o SelectSeq(q, IsCommand)", "Sorted(q) == q", "MC_Bus", "MC_Bus.cfg",
     {"QuiescentEditor", "EventsFirst"}, "the bus handles messages in arrival order (commands may overtake write-back events)"),
    ("Bus.tla", "/\\ queue' = Rest \\o << [k |-> \"Reindex\"] >> \\o (IF again THEN << edit >> ELSE <<>>)",
     "/\\ queue' = Rest \\o (IF again THEN << edit >> ELSE <<>>) \\o << [k |-> \"Reindex\"] >>", "MC_Bus", "MC_Bus.cfg",
     {"QuiescentEditor"}, "the next editor session is queued before the reindex of the previous one"),
]


def main():
    out = []
    ok_all = True
    for fname, old, new, module, cfg, expect, what in MUTANTS:
        d = Path(tempfile.mkdtemp(prefix="specmut-", dir=tlc.scratch_root()))
        for f in SPEC.iterdir():
            shutil.copy(f, d / f.name)
        text = (d / fname).read_text()
        if old not in text:
            print(f"MUTANT-NOT-APPLICABLE {fname}: {what}")
            ok_all = False
            continue
        (d / fname).write_text(text.replace(old, new, 1))
        r = tlc.run_tlc(module, cfg=cfg, spec_dir=d, env={"ZV_EMIT": "0"}, timeout=900)
        killed = r.violated in expect
        ok_all &= killed
        out.append({"mutant": what, "file": fname, "config": cfg, "tlc_verdict": r.violated or ("no error" if r.ok else r.error), "killed": killed,
                    "states": r.distinct, "wall_s": round(r.wall_s, 1)})
        print(("KILLED   " if killed else "SURVIVED ") + f"{fname:16s} {what}  -> {r.violated or r.error or 'no error'}")
    (SPEC.parent / "spec_mutants.json").write_text(json.dumps(out, indent=1) + "\n")
    tlc.cleanup_scratch()
    return 0 if ok_all else 1


if __name__ == "__main__":
    sys.exit(main())
