#!/bin/sh
# tools/seed_all.sh [tier] [seed dirs...] : applies every stored seeded change to /repo in turn, runs the property's check,
# undoes the change, and writes seeded/RESULTS.txt (caught = the check printed a VIOLATION line and exited 1).
TIER=${1:-quick}; shift
cd /verif || exit 2
DIRS=${*:-$(ls -d seeded/C*/ | sort)}
OUT=seeded/RESULTS.txt
[ -n "$APPEND" ] || : > $OUT
for D in $DIRS; do
  D=${D%/}; NAME=$(basename $D); ID=$(echo $NAME | cut -c1-3)
  if grep -q '"neutralised_by"' /verif/$D/meta.json 2>/dev/null; then echo "$NAME $TIER neutralised (see meta.json)" | tee -a $OUT; continue; fi
  git -C /repo diff --quiet || { echo "/repo is dirty"; exit 2; }
  git -C /repo apply /verif/$D/patch.diff || { echo "$NAME patch-does-not-apply" >> $OUT; continue; }
  S=$(date +%s)
  ./check $ID $TIER > /tmp/seed_all_$NAME.log 2>&1; RC=$?
  E=$(date +%s)
  git -C /repo checkout -- .
  N=$(grep -c '^VIOLATION' /tmp/seed_all_$NAME.log)
  if [ $RC -eq 1 ] && [ $N -gt 0 ]; then R=caught; elif [ $RC -eq 0 ]; then R=MISSED; else R="machinery(rc=$RC)"; fi
  echo "$NAME $TIER $R violations=$N secs=$((E-S))" | tee -a $OUT
done
